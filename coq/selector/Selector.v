(** * Selector: model of replica selection (datacake-node/src/nodes_selector.rs)

    Definitions only (the executable model).  Proofs are in [SelectorProofs.v].

    Transcribed: [NodeCycler::next], [select_n_nodes] (with all its counters:
    [num_extra_nodes], [dc_count], [num_extra_nodes_per_dc]), the other levels of
    [DCAwareSelector::select_nodes] (None / All / Quorum / LocalQuorum / EachQuorum), and the
    selector actor of [start_node_selector] ([SetNodes], [GetNodes], the result cache).

    Conventions.
    - Addresses and data-centre names are [N]; counts, cursors and indices are [nat].
    - A layout is the [BTreeMap<name, NodeCycler>] as an association list in iteration
      (= name) order.  A data centre is addressed by its index in that list.
    - [usize] subtraction is [nat] subtraction (truncated).  The places where the Rust code
      subtracts are noted; none of them can underflow under the premises of the theorems
      (the executor reports a panic as its own outcome, which the model never produces).
    - The random [choose_multiple(&mut rng, n)] of [select_n_nodes] is the explicit argument
      [choice]: the list of the chosen data centres' indices in the order the reservoir
      sampler returned them.  It is constrained only by [choice_ok]: [n] pairwise different
      candidate data centres, in any order.
    - The actor's 2-second cache ([std::time::Instant]) is abstracted: a cached answer is
      returned until [SetNodes] clears the cache or an explicit [Expire] event (standing for
      "more than two seconds went by for this level's entry") removes it. *)

From Coq Require Import NArith List Bool Arith.
Import ListNotations.

(** ** NodeCycler *)

Record cycler := mkcyc { cur : nat; cnodes : list N }.

(** [NodeCycler::next]: wrap the cursor, read, advance.  On an empty cycler the read
    returns [None] (and the cursor still advances). *)
Definition cyc_next (c : cycler) : option N * cycler :=
  let cu := if length (cnodes c) <=? cur c then 0 else cur c in
  (nth_error (cnodes c) cu, mkcyc (S cu) (cnodes c)).

Definition dc := (N * cycler)%type.
Definition layout := list dc.

Definition lookup (name : N) (l : layout) : option cycler :=
  option_map snd (find (fun d => N.eqb (fst d) name) l).

(** All addresses of a layout, in iteration order. *)
Definition lnodes (l : layout) : list N := concat (map (fun d => cnodes (snd d)) l).

Fixpoint mem (x : N) (l : list N) : bool :=
  match l with [] => false | y :: r => N.eqb y x || mem x r end.

Definition not_local (local : N) (a : N) : bool := negb (N.eqb a local).

Fixpoint set_nth {A : Type} (i : nat) (x : A) (l : list A) : list A :=
  match l, i with
  | [], _ => []
  | _ :: r, 0 => x :: r
  | y :: r, S i' => y :: set_nth i' x r
  end.

(** ** Levels and results *)

Inductive level := LNone | LOne | LTwo | LThree | LQuorum | LLocalQuorum | LAll | LEachQuorum.

Definition level_eqb (a b : level) : bool :=
  match a, b with
  | LNone, LNone | LOne, LOne | LTwo, LTwo | LThree, LThree | LQuorum, LQuorum
  | LLocalQuorum, LLocalQuorum | LAll, LAll | LEachQuorum, LEachQuorum => true
  | _, _ => false
  end.

(** [Result<Nodes, ConsistencyError>]; the only error the selector produces is
    [NotEnoughNodes { live, required }]. *)
Inductive result :=
| Ok (sel : list N)
| NotEnough (live required : nat).

(** ** select_n_nodes *)

(** The inner [for _ in 0..num_extra_nodes_per_dc] loop: take further nodes of the same data
    centre, skipping the local node and nodes already selected. *)
Fixpoint extras_loop (k : nat) (local : N) (c : cycler) (ex : nat) (sel : list N)
  : cycler * nat * list N :=
  match k with
  | 0 => (c, ex, sel)
  | S k' =>
    let '(o, c') := cyc_next c in
    match o with
    | Some nd =>
      if N.eqb nd local || mem nd sel then extras_loop k' local c' ex sel
      else extras_loop k' local c' (ex - 1) (sel ++ [nd])
    | None => extras_loop k' local c' ex sel
    end
  end.

(** After the first node [nd] of a data centre was pushed. *)
Definition after_first (local : N) (nd : N) (c : cycler) (ex cnt : nat) (sel : list N)
  : cycler * nat * nat * list N :=
  let sel1 := sel ++ [nd] in
  if ex =? 0 then (c, ex, cnt, sel1)                       (* [continue]: dc_count untouched *)
  else
    let per := ex / Nat.max (cnt - 1) 1 in
    let '(c3, ex3, sel3) := extras_loop per local c ex sel1 in
    (c3, ex3, cnt - 1, sel3).

(** One iteration of the main loop of [select_n_nodes] on the cycler of one selected data
    centre; returns the cycler, [num_extra_nodes], [dc_count] and [selected_nodes]. *)
Definition visit_dc (local : N) (c : cycler) (ex cnt : nat) (sel : list N)
  : cycler * nat * nat * list N :=
  let '(o1, c1) := cyc_next c in
  match o1 with
  | None => (c1, S ex, cnt - 1, sel)
  | Some nd =>
    if N.eqb nd local then
      if length (cnodes c) <=? 1 then (c1, S ex, cnt - 1, sel)
      else
        let '(o2, c2) := cyc_next c1 in
        match o2 with
        | Some nd2 => after_first local nd2 c2 ex cnt sel
        | None => (c2, S ex, cnt - 1, sel)    (* the [unwrap()]; dead, see [cyc_next_some] *)
        end
    else after_first local nd c1 ex cnt sel
  end.

Fixpoint main_loop (local : N) (idxs : list nat) (l : layout) (ex cnt : nat) (sel : list N)
  : layout * nat * nat * list N :=
  match idxs with
  | [] => (l, ex, cnt, sel)
  | i :: r =>
    match nth_error l i with
    | None => main_loop local r l ex cnt sel             (* not a data centre: never chosen *)
    | Some (name, c) =>
      let '(c', ex', cnt', sel') := visit_dc local c ex cnt sel in
      main_loop local r (set_nth i (name, c') l) ex' cnt' sel'
    end
  end.

(** Indices of the data centres that pass
    [filter(|(dc, _)| !(can_skip_local_dc && dc == local_dc))], counted from [k]. *)
Fixpoint candidates (can_skip : bool) (local_dc : N) (k : nat) (l : layout) : list nat :=
  match l with
  | [] => []
  | (name, _) :: r =>
    if can_skip && N.eqb name local_dc then candidates can_skip local_dc (S k) r
    else k :: candidates can_skip local_dc (S k) r
  end.

(** The top-up added by the repair of D7: before giving up, fill the selection from the
    remaining nodes of the layout (iteration order), skipping the local node and nodes
    already selected, until [n] are selected. *)
Fixpoint topup (n : nat) (local : N) (pool : list N) (sel : list N) : list N :=
  match pool with
  | [] => sel
  | x :: r =>
    if n <=? length sel then sel
    else topup n local r (if N.eqb x local || mem x sel then sel else sel ++ [x])
  end.

Definition local_dc_len (local_dc : N) (l : layout) : nat :=
  match lookup local_dc l with Some c => length (cnodes c) | None => 0 end.

Definition can_skip_local (local_dc : N) (n total : nat) (l : layout) : bool :=
  n <=? total - local_dc_len local_dc l.

Definition num_dcs (local_dc : N) (n total : nat) (l : layout) : nat :=
  if can_skip_local local_dc n total l then length l - 1 else length l.

(** Does [select_n_nodes] consult the random number generator on this input? *)
Definition uses_choice (local_dc : N) (n total : nat) (l : layout) : bool :=
  negb (num_dcs local_dc n total l <=? n).

Definition select_n_gen (with_topup : bool) (local local_dc : N) (n total : nat)
           (choice : list nat) (l : layout) : result * layout :=
  let can_skip := can_skip_local local_dc n total l in
  let nd := num_dcs local_dc n total l in
  let cands := candidates can_skip local_dc 0 l in
  let ex0 := if nd <=? n then n - nd else 0 in
  let idxs := if nd <=? n then cands else choice in
  let '(l', _, _, sel) := main_loop local idxs l ex0 (length idxs) [] in
  let sel' := if with_topup then topup n local (lnodes l') sel else sel in
  (if n <=? length sel' then Ok sel' else NotEnough (length sel') n, l').

(** The code after the repair of D7, and as it stood before. *)
Definition select_n := select_n_gen true.
Definition legacy_select_n := select_n_gen false.

(** What [choose_multiple] may return: [n] pairwise different candidates, any order. *)
Fixpoint nodupb (l : list nat) : bool :=
  match l with [] => true | x :: r => negb (existsb (Nat.eqb x) r) && nodupb r end.

Definition choice_okb (local_dc : N) (n total : nat) (l : layout) (choice : list nat) : bool :=
  let cands := candidates (can_skip_local local_dc n total l) local_dc 0 l in
  nodupb choice && forallb (fun i => existsb (Nat.eqb i) cands) choice && (length choice =? n).

(** ** The other levels *)

Fixpoint heads (its : list (list N)) : list N :=
  match its with
  | [] => []
  | [] :: r => heads r
  | (x :: _) :: r => x :: heads r
  end.

(** The [while selected_nodes.len() < majority] loop of [Quorum]: every round takes the next
    node of every data centre's (local-free) iterator.  [fuel] is any number above the
    number of nodes left in the iterators. *)
Fixpoint quorum_loop (fuel maj : nat) (its : list (list N)) (sel : list N) : result :=
  if maj <=? length sel then Ok sel
  else
    match fuel with
    | 0 => NotEnough (length sel) maj
    | S f =>
      match heads its with
      | [] => NotEnough (length sel) maj
      | h => quorum_loop f maj (map (@tl N) its) (sel ++ h)
      end
    end.

Definition dc_others (local : N) (d : dc) : list N := filter (not_local local) (cnodes (snd d)).

Definition select_quorum (local : N) (total : nat) (l : layout) : result :=
  let its := map (dc_others local) l in
  quorum_loop (S (length (concat its))) (total / 2) its [].

Definition select_local_quorum (local local_dc : N) (l : layout) : list N :=
  match lookup local_dc l with
  | Some c => firstn (length (cnodes c) / 2) (filter (not_local local) (cnodes c))
  | None => []
  end.

Definition select_all (local : N) (l : layout) : list N := filter (not_local local) (lnodes l).

Definition each_majority (local_dc : N) (d : dc) : nat :=
  if N.eqb (fst d) local_dc then length (cnodes (snd d)) / 2
  else length (cnodes (snd d)) / 2 + 1.

Definition select_each_quorum (local local_dc : N) (l : layout) : list N :=
  concat (map (fun d => firstn (each_majority local_dc d) (dc_others local d)) l).

Definition level_n (lv : level) : option nat :=
  match lv with LOne => Some 1 | LTwo => Some 2 | LThree => Some 3 | _ => None end.

(** [DCAwareSelector::select_nodes].  Only One/Two/Three move the cursors. *)
Definition select_nodes_gen (with_topup : bool) (local local_dc : N) (total : nat)
           (choice : list nat) (l : layout) (lv : level) : result * layout :=
  match lv with
  | LNone => (Ok [], l)
  | LOne => select_n_gen with_topup local local_dc 1 total choice l
  | LTwo => select_n_gen with_topup local local_dc 2 total choice l
  | LThree => select_n_gen with_topup local local_dc 3 total choice l
  | LQuorum => (select_quorum local total l, l)
  | LLocalQuorum => (Ok (select_local_quorum local local_dc l), l)
  | LAll => (Ok (select_all local l), l)
  | LEachQuorum => (Ok (select_each_quorum local local_dc l), l)
  end.

Definition select_nodes := select_nodes_gen true.
Definition legacy_select_nodes := select_nodes_gen false.

(** A history of selections on one layout (the public trait called repeatedly on the same
    map, as the actor does).  Each step carries its level, the [total_nodes] argument and the
    generator's choice. *)
Fixpoint run_history (with_topup : bool) (local local_dc : N)
         (steps : list (level * nat * list nat)) (l : layout) : list result * layout :=
  match steps with
  | [] => ([], l)
  | (lv, total, choice) :: r =>
    let '(res, l1) := select_nodes_gen with_topup local local_dc total choice l lv in
    let '(rs, l2) := run_history with_topup local local_dc r l1 in
    (res :: rs, l2)
  end.

(** ** The selector actor *)

Record actor := mkactor {
  a_total : nat;                         (* total_nodes *)
  a_lay : layout;                        (* data_centers *)
  a_cache : list (level * list N)        (* cached_nodes (without the instants) *)
}.

Definition actor_init : actor := mkactor 0 [] [].

Inductive op :=
| SetNodes (new : list (N * list N))     (* a BTreeMap: ascending names *)
| GetNodes (lv : level) (choice : list nat)
| Expire (lv : level).                   (* this level's cache entry is older than 2 s *)

Definition fresh_layout (new : list (N * list N)) : layout :=
  map (fun d => (fst d, mkcyc 0 (snd d))) new.

Definition total_of (new : list (N * list N)) : nat :=
  fold_left (fun acc d => acc + length (snd d)) new 0.

(** [BTreeMap::insert]. *)
Fixpoint insert_dc (name : N) (c : cycler) (l : layout) : layout :=
  match l with
  | [] => [(name, c)]
  | (name', c') :: r =>
    if N.ltb name name' then (name, c) :: l
    else if N.eqb name name' then (name, c) :: r
    else (name', c') :: insert_dc name c r
  end.

Fixpoint cache_get (lv : level) (cache : list (level * list N)) : option (list N) :=
  match cache with
  | [] => None
  | (lv', s) :: r => if level_eqb lv' lv then Some s else cache_get lv r
  end.

Definition cache_remove (lv : level) (cache : list (level * list N)) :=
  filter (fun e => negb (level_eqb (fst e) lv)) cache.

(** One message of the actor.  [replace_map = true] is the code after the repair of D6
    (the new layout replaces the map); [false] is the code before (new data centres were
    inserted into the old map, so data centres that left stayed). *)
Definition actor_step_gen (replace_map with_topup : bool) (local local_dc : N)
           (a : actor) (o : op) : actor * option result :=
  match o with
  | SetNodes new =>
    let lay :=
      if replace_map then fresh_layout new
      else fold_left (fun m d => insert_dc (fst d) (mkcyc 0 (snd d)) m) new (a_lay a) in
    (mkactor (total_of new) lay [], None)
  | GetNodes lv choice =>
    match cache_get lv (a_cache a) with
    | Some s => (a, Some (Ok s))
    | None =>
      let '(res, l') := select_nodes_gen with_topup local local_dc (a_total a) choice (a_lay a) lv in
      let cache' := match res with
                    | Ok s => (lv, s) :: cache_remove lv (a_cache a)
                    | NotEnough _ _ => a_cache a
                    end in
      (mkactor (a_total a) l' cache', Some res)
    end
  | Expire lv => (mkactor (a_total a) (a_lay a) (cache_remove lv (a_cache a)), None)
  end.

Definition actor_step := actor_step_gen true true.
Definition legacy_actor_step := actor_step_gen false true.

Fixpoint actor_run_gen (replace_map with_topup : bool) (local local_dc : N)
         (ops : list op) (a : actor) : actor * list (option result) :=
  match ops with
  | [] => (a, [])
  | o :: r =>
    let '(a1, rep) := actor_step_gen replace_map with_topup local local_dc a o in
    let '(a2, reps) := actor_run_gen replace_map with_topup local local_dc r a1 in
    (a2, rep :: reps)
  end.

Definition actor_run := actor_run_gen true true.

(** ** Specification vocabulary (used by the theorems and by nothing executable) *)

Definition others (local : N) (l : layout) : list N := filter (not_local local) (lnodes l).

(** What a level asks for, as the implementation's own comments define it: [n] for
    One/Two/Three; half of all nodes for Quorum (the local node is the "+1"); half of the
    local data centre for LocalQuorum; every other node for All; for EachQuorum half of
    the local data centre plus a strict majority (capped at its size) of every other one. *)
Definition each_required (local_dc : N) (d : dc) : nat :=
  Nat.min (length (cnodes (snd d))) (each_majority local_dc d).

Definition required (local local_dc : N) (l : layout) (lv : level) : nat :=
  match lv with
  | LNone => 0
  | LOne => 1
  | LTwo => 2
  | LThree => 3
  | LQuorum => length (lnodes l) / 2
  | LLocalQuorum => local_dc_len local_dc l / 2
  | LAll => length (others local l)
  | LEachQuorum => fold_right (fun d acc => each_required local_dc d + acc) 0 l
  end.
