(** * C15 — Replica selection yields enough distinct live peers or reports too few

    This file contains only the property theorems (each closed by [exact] of a lemma proved
    in [SelectorProofs.v]) and non-vacuity examples.

    Reading guide.  A layout [l] is the selector's [BTreeMap<data centre, NodeCycler>]; the
    theorems hold for EVERY cursor value in it (no hypothesis mentions [cur]), which covers
    every history of earlier selections, and for every layout size.  [choice] is the result
    of rand's [choose_multiple]: any duplicate-free list (of [n] data-centre indices where
    the count matters).  Hypotheses: the addresses of the layout are pairwise different
    ([NoDup (lnodes l)]); for the clauses about how many nodes are selected, additionally
    [total_nodes] is the number of members and the local node is listed under its own data
    centre ([local_listed]) — both always true in the actor, which builds the layout from a
    membership that contains the node itself. *)

From Coq Require Import NArith List.
From DC Require Import Selector SelectorProofs.
Import ListNotations.

(** A successful selection has no duplicates, does not contain the local node and contains
    members of the layout only; selecting changes nothing of the layout but cursors. *)
Theorem C15_selection_is_sound :
  forall local local_dc total choice l lv res l',
    NoDup (lnodes l) -> NoDup choice ->
    select_nodes local local_dc total choice l lv = (res, l') ->
    shape l' = shape l /\
    forall sel, res = Ok sel -> NoDup sel /\ ~ In local sel /\ incl sel (lnodes l).
Proof. exact select_nodes_sound. Qed.

(** ... and at least as many nodes as the level requires, exactly [n] for One/Two/Three. *)
Theorem C15_selection_is_enough :
  forall local local_dc choice l lv sel l',
    NoDup (lnodes l) -> local_listed local local_dc l ->
    (forall n, level_n lv = Some n -> length choice = n) ->
    select_nodes local local_dc (length (lnodes l)) choice l lv = (Ok sel, l') ->
    required local local_dc l lv <= length sel /\
    (forall n, level_n lv = Some n -> length sel = n).
Proof. exact select_nodes_enough. Qed.

(** NotEnoughNodes is answered only when fewer than the required number of other nodes
    exist (and then reports that number). *)
Theorem C15_error_only_when_too_few :
  forall local local_dc choice l lv live req l',
    NoDup (lnodes l) -> NoDup choice ->
    select_nodes local local_dc (length (lnodes l)) choice l lv = (NotEnough live req, l') ->
    req = required local local_dc l lv /\ live = length (others local l) /\
    length (others local l) < required local local_dc l lv.
Proof. exact select_nodes_err. Qed.

(** The [unwrap()] on the second [next()] of [select_n_nodes] cannot fail. *)
Theorem C15_unwrap_never_fails :
  forall c, cnodes c <> [] -> exists a, fst (cyc_next c) = Some a.
Proof. exact cyc_next_some. Qed.

(** The actor: after any sequence of membership updates, selections, cache hits and cache
    expiries, an answer draws from the membership of the LAST update only — nodes and whole
    data centres that left are never selected again. *)
Theorem C15_actor_draws_from_last_update :
  forall local local_dc ops lv choice sel,
    Forall op_wf ops -> NoDup choice ->
    let a := fst (actor_run local local_dc ops actor_init) in
    snd (actor_step local local_dc a (GetNodes lv choice)) = Some (Ok sel) ->
    NoDup sel /\ ~ In local sel /\ incl sel (concat (map snd (last_set ops []))).
Proof. exact actor_draws_from_last_update. Qed.

Theorem C15_actor_layout_is_last_update :
  forall local local_dc ops,
    Forall op_wf ops ->
    let a := fst (actor_run local local_dc ops actor_init) in
    shape (a_lay a) = last_set ops [] /\ a_total a = length (lnodes (a_lay a)).
Proof. exact actor_layout_is_last_update. Qed.

(** Every answer of the actor, fresh or served from its cache: enough nodes, exactly [n] for
    One/Two/Three, an error only when too few other nodes exist - relative to the membership of
    the last update.  (A cache entry is an earlier fresh answer on the same membership: every
    update clears the cache, selections move cursors but never the shape, and the count
    clauses speak about the shape only.)  [op_wf_count]: the RNG hands One/Two/Three a choice
    of the requested length. *)
Theorem C15_actor_selection_count :
  forall local local_dc ops lv choice,
    Forall op_wf_count ops -> NoDup choice ->
    (forall n, level_n lv = Some n -> length choice = n) ->
    let a := fst (actor_run local local_dc ops actor_init) in
    local_listed local local_dc (a_lay a) ->
    match snd (actor_step local local_dc a (GetNodes lv choice)) with
    | Some (Ok sel) =>
      required local local_dc (a_lay a) lv <= length sel /\
      (forall n, level_n lv = Some n -> length sel = n)
    | Some (NotEnough live req) =>
      length (others local (a_lay a)) < required local local_dc (a_lay a) lv
    | None => False
    end.
Proof. exact actor_selection_count. Qed.

(** The code as it stood before the repairs violates the property (D7, D6; both fixed). *)
Theorem C15_legacy_select_refuted :
  fst (legacy_select_nodes 2%N 0%N 3 [] d7_layout LTwo) = NotEnough 1 2 /\
  length (others 2%N d7_layout) = 2 /\
  fst (run_history false 1%N 0%N [(LOne, 3, []); (LTwo, 3, [])] d7_layout)
    = [Ok [2%N]; NotEnough 1 2] /\
  fst (run_history true 1%N 0%N [(LOne, 3, []); (LTwo, 3, [])] d7_layout)
    = [Ok [2%N]; Ok [3%N; 2%N]].
Proof. exact legacy_select_refuted. Qed.

Theorem C15_legacy_set_nodes_refuted :
  let ops := [SetNodes [(0%N, [1%N; 2%N]); (1%N, [16%N])]; SetNodes [(0%N, [1%N; 2%N])];
              GetNodes LAll []] in
  snd (actor_run_gen false true 1%N 0%N ops actor_init) = [None; None; Some (Ok [2%N; 16%N])] /\
  snd (actor_run 1%N 0%N ops actor_init) = [None; None; Some (Ok [2%N])].
Proof. exact legacy_set_nodes_refuted. Qed.

(** Non-vacuity: a concrete three-data-centre layout with moved cursors meets every
    hypothesis; Three selects exactly three, All selects the five others, and on a
    two-node layout Three fails because only one other node exists. *)
Example C15_nonvacuous :
  let l := [(0%N, mkcyc 2 [1%N; 2%N; 3%N]); (1%N, mkcyc 1 [16%N; 17%N]); (2%N, mkcyc 5 [32%N])] in
  NoDup (lnodes l) /\ local_listed 2%N 0%N l /\ NoDup [1; 2] /\
  fst (select_nodes 2%N 0%N 6 [] l LThree) = Ok [17%N; 16%N; 32%N] /\
  fst (select_nodes 2%N 0%N 6 [] l LAll) = Ok [1%N; 3%N; 16%N; 17%N; 32%N] /\
  required 2%N 0%N l LEachQuorum = 4 /\
  fst (select_nodes 1%N 0%N 2 [] [(0%N, mkcyc 1 [1%N; 2%N])] LThree) = NotEnough 1 3 /\
  Forall op_wf [SetNodes [(0%N, [1%N; 2%N]); (1%N, [16%N])]; GetNodes LOne []; Expire LOne].
Proof.
  cbv zeta. repeat split; try (vm_compute; reflexivity).
  - vm_compute. repeat constructor; cbn; intuition congruence.
  - exists (mkcyc 2 [1%N; 2%N; 3%N]). split; [reflexivity | cbn; tauto].
  - repeat constructor; cbn; intuition congruence.
  - repeat constructor; cbn; intuition congruence.
Qed.
