(** * SelectorProofs: lemmas about the replica-selection model [Selector.v]. *)
From Coq Require Import ZArith NArith List Bool Arith Lia Permutation.
From Coq Require Import ZifyBool ZifyN ZifyNat.
From DC Require Import Selector.
Import ListNotations.
Ltac Zify.zify_post_hook ::= Z.div_mod_to_equations.

(** ** The defects, on the pre-repair definitions *)

(** D7: one data centre [a; b; c], local node [b], fresh cursors, level Two: the code
    before the repair answers NotEnoughNodes although two other nodes exist; so does the
    history One, Two with local node [a]. *)
Definition d7_layout : layout := [(0%N, mkcyc 0 [1%N; 2%N; 3%N])].

Lemma legacy_select_refuted :
  fst (legacy_select_nodes 2%N 0%N 3 [] d7_layout LTwo) = NotEnough 1 2 /\
  length (others 2%N d7_layout) = 2 /\
  fst (run_history false 1%N 0%N [(LOne, 3, []); (LTwo, 3, [])] d7_layout)
    = [Ok [2%N]; NotEnough 1 2] /\
  fst (run_history true 1%N 0%N [(LOne, 3, []); (LTwo, 3, [])] d7_layout)
    = [Ok [2%N]; Ok [3%N; 2%N]].
Proof. vm_compute. repeat split; reflexivity. Qed.

(** D6: after the membership shrinks to data centre 0 alone, the actor before the repair
    still selects node [16] of the departed data centre 1. *)
Lemma legacy_set_nodes_refuted :
  let ops := [SetNodes [(0%N, [1%N; 2%N]); (1%N, [16%N])]; SetNodes [(0%N, [1%N; 2%N])];
              GetNodes LAll []] in
  snd (actor_run_gen false true 1%N 0%N ops actor_init) = [None; None; Some (Ok [2%N; 16%N])] /\
  snd (actor_run 1%N 0%N ops actor_init) = [None; None; Some (Ok [2%N])].
Proof. vm_compute. split; reflexivity. Qed.

(** ** List facts *)

Lemma mem_In : forall x l, mem x l = true <-> In x l.
Proof.
  induction l as [|y r IH]; cbn [mem In].
  - split; [discriminate | tauto].
  - rewrite orb_true_iff, N.eqb_eq, IH. tauto.
Qed.

Lemma mem_false : forall x l, mem x l = false <-> ~ In x l.
Proof.
  intros x l. rewrite <- mem_In. destruct (mem x l); split; congruence.
Qed.

Lemma NoDup_app_iff : forall (A : Type) (a b : list A),
  NoDup (a ++ b) <-> NoDup a /\ NoDup b /\ (forall x, In x a -> ~ In x b).
Proof.
  induction a as [|x a IH]; intros b; cbn [app].
  - split.
    + intros H. repeat split; [constructor | exact H | intros x []].
    + tauto.
  - rewrite !NoDup_cons_iff, IH, in_app_iff. split.
    + intros [Hx [Ha [Hb Hd]]]. repeat split; try tauto.
      intros y [->|Hy]; [tauto | auto].
    + intros [[Hx Ha] [Hb Hd]]. repeat split; try tauto.
      * intros [H|H]; [tauto | exact (Hd x (or_introl eq_refl) H)].
      * intros y Hy. apply Hd. now right.
Qed.

Lemma NoDup_snoc : forall (A : Type) (l : list A) x, NoDup l -> ~ In x l -> NoDup (l ++ [x]).
Proof.
  intros A l x Hl Hx. apply NoDup_app_iff. repeat split; auto.
  - constructor; [intros [] | constructor].
  - intros y Hy [->|[]]. tauto.
Qed.

Lemma NoDup_firstn : forall (A : Type) k (l : list A), NoDup l -> NoDup (firstn k l).
Proof.
  intros A k l H. rewrite <- (firstn_skipn k l) in H. apply NoDup_app_iff in H. tauto.
Qed.

Lemma In_firstn : forall (A : Type) k (l : list A) x, In x (firstn k l) -> In x l.
Proof.
  intros A k l x H. rewrite <- (firstn_skipn k l). apply in_or_app. now left.
Qed.

Lemma NoDup_concat_In : forall (A : Type) (ls : list (list A)) a,
  NoDup (concat ls) -> In a ls -> NoDup a.
Proof.
  induction ls as [|b r IH]; intros a H Hin; [destruct Hin|].
  cbn [concat] in H. apply NoDup_app_iff in H. destruct Hin as [->|Hin]; [tauto | apply IH; tauto].
Qed.

Lemma In_concat_incl : forall (A : Type) (ls : list (list A)) a, In a ls -> incl a (concat ls).
Proof.
  intros A ls a Hin x Hx. apply in_concat. eauto.
Qed.

Lemma filter_length_le_S : forall local l,
  NoDup l -> length l <= S (length (filter (not_local local) l)).
Proof.
  intros local. induction l as [|x r IH]; intros Hnd; cbn [filter length]; [lia|].
  apply NoDup_cons_iff in Hnd as [Hx Hr]. unfold not_local at 1.
  destruct (N.eqb_spec x local) as [->|Hne]; cbn [negb length].
  - assert (filter (not_local local) r = r) as ->; [|lia].
    clear IH Hr. induction r as [|y r IH]; [reflexivity|]. cbn [filter]. unfold not_local at 1.
    destruct (N.eqb_spec y local) as [->|_]; [exfalso; apply Hx; now left|].
    cbn [negb]. f_equal. apply IH. intros H. apply Hx. now right.
  - specialize (IH Hr). lia.
Qed.

Lemma filter_not_local_id : forall local l, ~ In local l -> filter (not_local local) l = l.
Proof.
  induction l as [|y r IH]; intros H; [reflexivity|]. cbn [filter]. unfold not_local at 1.
  destruct (N.eqb_spec y local) as [->|_]; [exfalso; apply H; now left|].
  cbn [negb]. f_equal. apply IH. intros H'. apply H. now right.
Qed.

Lemma not_local_In : forall local l x, In x (filter (not_local local) l) <-> In x l /\ x <> local.
Proof.
  intros. rewrite filter_In. unfold not_local. rewrite negb_true_iff, N.eqb_neq. tauto.
Qed.

Lemma concat_map_filter : forall (A B : Type) (p : B -> bool) (f : A -> list B) (l : list A),
  concat (map (fun d => filter p (f d)) l) = filter p (concat (map f l)).
Proof.
  induction l as [|d r IH]; [reflexivity|]. cbn [map concat]. rewrite filter_app, IH. reflexivity.
Qed.

(** ** NodeCycler *)

Lemma cyc_next_nodes : forall c, cnodes (snd (cyc_next c)) = cnodes c.
Proof. reflexivity. Qed.

Lemma cyc_next_In : forall c a, fst (cyc_next c) = Some a -> In a (cnodes c).
Proof. intros c a H. cbn [cyc_next fst] in H. eapply nth_error_In; eauto. Qed.

(** The [unwrap()] in [select_n_nodes] cannot fail: a non-empty cycler always yields. *)
Lemma cyc_next_some : forall c, cnodes c <> [] -> exists a, fst (cyc_next c) = Some a.
Proof.
  intros c Hne. cbn [cyc_next fst].
  destruct (nth_error (cnodes c) (if length (cnodes c) <=? cur c then 0 else cur c)) eqn:E; eauto.
  apply nth_error_None in E. destruct (cnodes c); [congruence|].
  cbn [length] in *. destruct (S (length l) <=? cur c) eqn:E2; lia.
Qed.

Lemma cyc_next_twice_diff : forall c a b,
  NoDup (cnodes c) -> 2 <= length (cnodes c) ->
  fst (cyc_next c) = Some a -> fst (cyc_next (snd (cyc_next c))) = Some b -> a <> b.
Proof.
  intros c a b Hnd Hlen Ha Hb. cbn [cyc_next fst snd cur cnodes] in *.
  set (i := if length (cnodes c) <=? cur c then 0 else cur c) in *.
  set (j := if length (cnodes c) <=? S i then 0 else S i) in *.
  intros ->. assert (i = j) as Hij.
  { eapply (proj1 (NoDup_nth_error (cnodes c)) Hnd); [|congruence].
    apply nth_error_Some. congruence. }
  subst i j. destruct (length (cnodes c) <=? cur c) eqn:E1;
    destruct (length (cnodes c) <=? _) eqn:E2 in Hij; lia.
Qed.

(** ** Layout shape: names and node lists (everything but the cursors) *)

Definition shape (l : layout) : list (N * list N) := map (fun d => (fst d, cnodes (snd d))) l.

Definition nodes_at (l : layout) (i : nat) : list N :=
  match nth_error l i with Some d => cnodes (snd d) | None => [] end.

Lemma lnodes_shape : forall l, lnodes l = concat (map snd (shape l)).
Proof. intros l. unfold lnodes, shape. rewrite map_map. reflexivity. Qed.

Lemma nodes_at_shape : forall l i,
  nodes_at l i = match nth_error (shape l) i with Some d => snd d | None => [] end.
Proof.
  unfold nodes_at, shape. induction l as [|d r IH]; intros [|i]; cbn [map nth_error]; auto.
Qed.

Lemma shape_set_nth : forall l i name c c',
  nth_error l i = Some (name, c) -> cnodes c' = cnodes c ->
  shape (set_nth i (name, c') l) = shape l.
Proof.
  induction l as [|d r IH]; intros [|i] name c c' Hn Hc; cbn in Hn; try discriminate.
  - injection Hn as ->. cbn. now rewrite Hc.
  - cbn [set_nth shape map]. f_equal. exact (IH i name c c' Hn Hc).
Qed.

Lemma nodes_at_incl : forall l i, incl (nodes_at l i) (lnodes l).
Proof.
  intros l i x Hx. unfold nodes_at in Hx. destruct (nth_error l i) as [d|] eqn:E; [|destruct Hx].
  apply nth_error_In in E. unfold lnodes. apply in_concat. exists (cnodes (snd d)). split; auto.
  apply in_map_iff. eauto.
Qed.

Lemma nodes_at_NoDup : forall l i, NoDup (lnodes l) -> NoDup (nodes_at l i).
Proof.
  intros l i H. unfold nodes_at. destruct (nth_error l i) as [d|] eqn:E; [|constructor].
  eapply NoDup_concat_In; [exact H|]. apply in_map_iff. exists d. split; auto.
  eapply nth_error_In; eauto.
Qed.

Lemma nodes_at_disjoint : forall l i j x,
  NoDup (lnodes l) -> i <> j -> In x (nodes_at l i) -> In x (nodes_at l j) -> False.
Proof.
  unfold lnodes, nodes_at. induction l as [|d r IH]; intros i j x Hnd Hij Hi Hj.
  - destruct i; destruct Hi.
  - cbn [map concat] in Hnd. apply NoDup_app_iff in Hnd as [Hd [Hr Hdis]].
    assert (forall k, In x (match nth_error r k with Some d => cnodes (snd d) | None => [] end) ->
                      In x (concat (map (fun d => cnodes (snd d)) r))) as Hin.
    { intros k Hk. exact (nodes_at_incl r k x Hk). }
    destruct i as [|i], j as [|j]; cbn [nth_error] in Hi, Hj.
    + congruence.
    + exact (Hdis x Hi (Hin j Hj)).
    + exact (Hdis x Hj (Hin i Hi)).
    + eapply (IH i j x); eauto.
Qed.

(** ** The main loop of [select_n_nodes]: which nodes *)

Lemma extras_loop_sound : forall k local c ex sel c' ex' sel',
  NoDup sel -> ~ In local sel ->
  extras_loop k local c ex sel = (c', ex', sel') ->
  cnodes c' = cnodes c /\ NoDup sel' /\ ~ In local sel' /\
  incl sel' (sel ++ cnodes c) /\ incl sel sel'.
Proof.
  induction k as [|k IH]; intros local c ex sel c' ex' sel' Hnd Hloc H; cbn [extras_loop] in H.
  - injection H as <- <- <-. repeat split; auto; [apply incl_appl|]; apply incl_refl.
  - destruct (cyc_next c) as [o c1] eqn:E.
    assert (cnodes c1 = cnodes c) as Hc1 by (rewrite <- (cyc_next_nodes c), E; reflexivity).
    destruct o as [nd|].
    + assert (In nd (cnodes c)) as Hnd_in by (apply cyc_next_In; rewrite E; reflexivity).
      destruct (N.eqb nd local || mem nd sel) eqn:Eb.
      * apply IH in H; auto. rewrite Hc1 in H. exact H.
      * apply orb_false_iff in Eb as [Eb1 Eb2]. apply N.eqb_neq in Eb1. apply mem_false in Eb2.
        apply IH in H.
        -- destruct H as (Hc & Hn & Hl & Hi & Hs). rewrite Hc1 in Hc, Hi. repeat split; auto.
           ++ intros x Hx. specialize (Hi x Hx). rewrite !in_app_iff in Hi. cbn [In] in Hi.
              apply in_or_app. destruct Hi as [[Hi|[<-|[]]]|Hi]; auto.
           ++ intros x Hx. apply Hs. apply in_or_app. now left.
        -- now apply NoDup_snoc.
        -- rewrite in_app_iff. cbn [In]. intros [Hx|[Hx|[]]]; [tauto | congruence].
    + apply IH in H; auto. rewrite Hc1 in H. exact H.
Qed.

Lemma after_first_sound : forall local nd c ex cnt sel c' ex' cnt' sel',
  NoDup sel -> ~ In local sel -> ~ In nd sel -> nd <> local -> In nd (cnodes c) ->
  after_first local nd c ex cnt sel = (c', ex', cnt', sel') ->
  cnodes c' = cnodes c /\ NoDup sel' /\ ~ In local sel' /\
  incl sel' (sel ++ cnodes c) /\ incl sel sel'.
Proof.
  intros local nd c ex cnt sel c' ex' cnt' sel' Hnd Hloc Hfresh Hne Hin H.
  unfold after_first in H.
  assert (NoDup (sel ++ [nd])) as Hnd1 by now apply NoDup_snoc.
  assert (~ In local (sel ++ [nd])) as Hloc1.
  { rewrite in_app_iff. cbn [In]. intros [Hx|[Hx|[]]]; [tauto | congruence]. }
  assert (incl (sel ++ [nd]) (sel ++ cnodes c)) as Hi1.
  { intros x Hx. apply in_app_iff in Hx. apply in_or_app. destruct Hx as [Hx|[<-|[]]]; auto. }
  destruct (ex =? 0).
  - injection H as <- <- <- <-. repeat split; auto. apply incl_appl, incl_refl.
  - destruct (extras_loop _ local c ex (sel ++ [nd])) as [[c3 ex3] sel3] eqn:E.
    injection H as <- <- <- <-. apply extras_loop_sound in E; auto.
    destruct E as (Hc & Hn & Hl & Hi & Hs). repeat split; auto.
    + intros x Hx. specialize (Hi x Hx). apply in_app_iff in Hi. destruct Hi as [Hi|Hi]; auto.
      apply in_or_app. now right.
    + intros x Hx. apply Hs. apply in_or_app. now left.
Qed.

Lemma visit_dc_sound : forall local c ex cnt sel c' ex' cnt' sel',
  NoDup (cnodes c) -> NoDup sel -> ~ In local sel ->
  (forall x, In x (cnodes c) -> ~ In x sel) ->
  visit_dc local c ex cnt sel = (c', ex', cnt', sel') ->
  cnodes c' = cnodes c /\ NoDup sel' /\ ~ In local sel' /\
  incl sel' (sel ++ cnodes c) /\ incl sel sel'.
Proof.
  intros local c ex cnt sel c' ex' cnt' sel' Hc Hnd Hloc Hfresh H.
  unfold visit_dc in H.
  assert (forall c1, cnodes c1 = cnodes c ->
            (c1, S ex, cnt - 1, sel) = (c', ex', cnt', sel') ->
            cnodes c' = cnodes c /\ NoDup sel' /\ ~ In local sel' /\
            incl sel' (sel ++ cnodes c) /\ incl sel sel') as Hskip.
  { intros c1 Hc1 Heq. injection Heq as <- <- <- <-. repeat split; auto.
    - apply incl_appl, incl_refl.
    - apply incl_refl. }
  destruct (cyc_next c) as [o1 c1] eqn:E1.
  assert (cnodes c1 = cnodes c) as Hc1 by (rewrite <- (cyc_next_nodes c), E1; reflexivity).
  destruct o1 as [nd|]; [|now apply (Hskip c1)].
  assert (In nd (cnodes c)) as Hnd_in by (apply cyc_next_In; rewrite E1; reflexivity).
  destruct (N.eqb_spec nd local) as [->|Hne].
  - destruct (length (cnodes c) <=? 1) eqn:El; [now apply (Hskip c1)|].
    destruct (cyc_next c1) as [o2 c2] eqn:E2.
    assert (cnodes c2 = cnodes c) as Hc2.
    { rewrite <- Hc1, <- (cyc_next_nodes c1), E2. reflexivity. }
    destruct o2 as [nd2|]; [|now apply (Hskip c2)].
    assert (In nd2 (cnodes c)) as Hnd2_in.
    { rewrite <- Hc1. apply cyc_next_In. rewrite E2. reflexivity. }
    assert (local <> nd2) as Hne2.
    { apply (cyc_next_twice_diff c); auto.
      - apply Nat.leb_gt in El. lia.
      - rewrite E1. reflexivity.
      - rewrite E1. cbn [snd]. rewrite E2. reflexivity. }
    apply after_first_sound in H; auto.
    + rewrite Hc2 in H. exact H.
    + now rewrite Hc2.
  - apply after_first_sound in H; auto.
    + rewrite Hc1 in H. exact H.
    + now rewrite Hc1.
Qed.

Lemma main_loop_sound : forall local idxs l ex cnt sel l' ex' cnt' sel',
  NoDup (lnodes l) -> NoDup idxs ->
  NoDup sel -> ~ In local sel -> incl sel (lnodes l) ->
  (forall x i, In x sel -> In i idxs -> ~ In x (nodes_at l i)) ->
  main_loop local idxs l ex cnt sel = (l', ex', cnt', sel') ->
  shape l' = shape l /\ NoDup sel' /\ ~ In local sel' /\ incl sel' (lnodes l).
Proof.
  intros local. induction idxs as [|i r IH];
    intros l ex cnt sel l' ex' cnt' sel' Hwf Hidx Hnd Hloc Hincl Hfresh H; cbn [main_loop] in H.
  - injection H as <- <- <- <-. auto.
  - apply NoDup_cons_iff in Hidx as [Hi Hr].
    destruct (nth_error l i) as [[name c]|] eqn:En.
    + destruct (visit_dc local c ex cnt sel) as [[[c1 ex1] cnt1] sel1] eqn:Ev.
      assert (nodes_at l i = cnodes c) as Hat by (unfold nodes_at; rewrite En; reflexivity).
      apply visit_dc_sound in Ev; auto.
      * destruct Ev as (Hc1 & Hnd1 & Hloc1 & Hi1 & Hs1).
        assert (shape (set_nth i (name, c1) l) = shape l) as Hsh by (eapply shape_set_nth; eauto).
        assert (lnodes (set_nth i (name, c1) l) = lnodes l) as Hln by (now rewrite !lnodes_shape, Hsh).
        assert (forall j, nodes_at (set_nth i (name, c1) l) j = nodes_at l j) as Hna.
        { intros j. now rewrite !nodes_at_shape, Hsh. }
        apply IH in H; auto.
        -- rewrite Hsh, Hln in H. exact H.
        -- now rewrite Hln.
        -- rewrite Hln. intros x Hx. specialize (Hi1 x Hx). apply in_app_iff in Hi1.
           destruct Hi1 as [Hx1|Hx1]; [auto|]. apply (nodes_at_incl l i). now rewrite Hat.
        -- intros x j Hx Hj. rewrite Hna. specialize (Hi1 x Hx). apply in_app_iff in Hi1.
           destruct Hi1 as [Hx1|Hx1].
           ++ apply Hfresh; auto. now right.
           ++ intros Hxj. apply (nodes_at_disjoint l i j x); auto; [congruence | now rewrite Hat].
      * rewrite <- Hat. now apply nodes_at_NoDup.
      * intros x Hx Hs. apply (Hfresh x i); auto; [now left | now rewrite Hat].
    + apply IH in H; auto. intros x j Hx Hj. apply Hfresh; auto. now right.
Qed.

(** ** The main loop of [select_n_nodes]: how many nodes

    Conservation: every visited data centre moves one unit either into [selected_nodes]
    or into [num_extra_nodes]; an extra node moves one unit from [num_extra_nodes] into
    [selected_nodes]. *)

Lemma extras_loop_count : forall k local c ex sel c' ex' sel',
  k <= ex -> extras_loop k local c ex sel = (c', ex', sel') ->
  length sel' + ex' = length sel + ex.
Proof.
  induction k as [|k IH]; intros local c ex sel c' ex' sel' Hk H; cbn [extras_loop] in H.
  - injection H as <- <- <-. reflexivity.
  - destruct (cyc_next c) as [o c1]. destruct o as [nd|].
    + destruct (N.eqb nd local || mem nd sel).
      * apply IH in H; lia.
      * apply IH in H; [|lia]. rewrite app_length in H. cbn [length] in H. lia.
    + apply IH in H; lia.
Qed.

Lemma after_first_count : forall local nd c ex cnt sel c' ex' cnt' sel',
  after_first local nd c ex cnt sel = (c', ex', cnt', sel') ->
  length sel' + ex' = S (length sel + ex).
Proof.
  intros local nd c ex cnt sel c' ex' cnt' sel' H. unfold after_first in H.
  destruct (ex =? 0).
  - injection H as <- <- <- <-. rewrite app_length. cbn [length]. lia.
  - destruct (extras_loop _ local c ex (sel ++ [nd])) as [[c3 ex3] sel3] eqn:E.
    injection H as <- <- <- <-. apply extras_loop_count in E.
    + rewrite app_length in E. cbn [length] in E. lia.
    + apply Nat.div_le_upper_bound; [lia|]. nia.
Qed.

Lemma visit_dc_count : forall local c ex cnt sel c' ex' cnt' sel',
  visit_dc local c ex cnt sel = (c', ex', cnt', sel') ->
  length sel' + ex' = S (length sel + ex).
Proof.
  intros local c ex cnt sel c' ex' cnt' sel' H. unfold visit_dc in H.
  destruct (cyc_next c) as [o1 c1]. destruct o1 as [nd|].
  - destruct (N.eqb nd local).
    + destruct (length (cnodes c) <=? 1).
      * injection H as <- <- <- <-. lia.
      * destruct (cyc_next c1) as [o2 c2]. destruct o2 as [nd2|].
        -- eapply after_first_count; eauto.
        -- injection H as <- <- <- <-. lia.
    + eapply after_first_count; eauto.
  - injection H as <- <- <- <-. lia.
Qed.

Lemma main_loop_count : forall local idxs l ex cnt sel l' ex' cnt' sel',
  main_loop local idxs l ex cnt sel = (l', ex', cnt', sel') ->
  length sel' + ex' <= length sel + ex + length idxs.
Proof.
  intros local. induction idxs as [|i r IH]; intros l ex cnt sel l' ex' cnt' sel' H;
    cbn [main_loop] in H.
  - injection H as <- <- <- <-. cbn [length]. lia.
  - cbn [length]. destruct (nth_error l i) as [[name c]|].
    + destruct (visit_dc local c ex cnt sel) as [[[c1 ex1] cnt1] sel1] eqn:Ev.
      apply visit_dc_count in Ev. apply IH in H. lia.
    + apply IH in H. lia.
Qed.

(** ** The top-up *)

Lemma topup_sound : forall n local pool sel,
  NoDup sel -> ~ In local sel ->
  NoDup (topup n local pool sel) /\ ~ In local (topup n local pool sel) /\
  incl (topup n local pool sel) (sel ++ pool) /\ incl sel (topup n local pool sel).
Proof.
  intros n local. induction pool as [|x r IH]; intros sel Hnd Hloc; cbn [topup].
  - repeat split; auto; [apply incl_appl|]; apply incl_refl.
  - destruct (n <=? length sel).
    + repeat split; auto; [apply incl_appl|]; apply incl_refl.
    + destruct (N.eqb x local || mem x sel) eqn:Eb.
      * destruct (IH sel Hnd Hloc) as (H1 & H2 & H3 & H4). repeat split; auto.
        intros y Hy. specialize (H3 y Hy). rewrite in_app_iff in *. cbn [In]. tauto.
      * apply orb_false_iff in Eb as [Eb1 Eb2]. apply N.eqb_neq in Eb1. apply mem_false in Eb2.
        destruct (IH (sel ++ [x])) as (H1 & H2 & H3 & H4).
        -- now apply NoDup_snoc.
        -- rewrite in_app_iff. cbn [In]. intros [H|[H|[]]]; [tauto | congruence].
        -- repeat split; auto.
           ++ intros y Hy. specialize (H3 y Hy). rewrite !in_app_iff in *. cbn [In] in *. tauto.
           ++ intros y Hy. apply H4. apply in_or_app. now left.
Qed.

Lemma topup_length : forall n local pool sel,
  length sel <= n -> length (topup n local pool sel) <= n.
Proof.
  intros n local. induction pool as [|x r IH]; intros sel Hl; cbn [topup]; auto.
  destruct (n <=? length sel) eqn:E; auto.
  apply Nat.leb_gt in E. apply IH.
  destruct (N.eqb x local || mem x sel); [lia|]. rewrite app_length. cbn [length]. lia.
Qed.

(** If the top-up ends below [n], it has swallowed every eligible node of the pool. *)
Lemma topup_complete : forall n local pool sel,
  length (topup n local pool sel) < n ->
  forall x, In x pool -> x <> local -> In x (topup n local pool sel).
Proof.
  intros n local. induction pool as [|y r IH]; intros sel Hlt x Hin Hne; [destruct Hin|].
  cbn [topup] in *. destruct (n <=? length sel) eqn:E.
  - apply Nat.leb_le in E. lia.
  - destruct Hin as [->|Hin]; [|now apply IH].
    destruct (N.eqb x local || mem x sel) eqn:Eb.
    + apply orb_true_iff in Eb as [Eb|Eb]; [apply N.eqb_eq in Eb; congruence|].
      apply mem_In in Eb.
      destruct (Nat.eq_dec 0 0) as [_|]; [|lia].
      assert (NoDup_free : incl sel (topup n local r sel)).
      { clear. revert sel. induction r as [|z r IH]; intros sel; cbn [topup]; [apply incl_refl|].
        destruct (n <=? length sel); [apply incl_refl|].
        destruct (N.eqb z local || mem z sel); [apply IH|].
        intros y Hy. apply IH. apply in_or_app. now left. }
      now apply NoDup_free.
    + assert (Hmono : forall r sel, incl sel (topup n local r sel)).
      { clear. induction r as [|z r IH]; intros sel; cbn [topup]; [apply incl_refl|].
        destruct (n <=? length sel); [apply incl_refl|].
        destruct (N.eqb z local || mem z sel); [apply IH|].
        intros y Hy. apply IH. apply in_or_app. now left. }
      apply Hmono. apply in_or_app. right. now left.
Qed.

(** ** [select_n_nodes] *)

Lemma candidates_NoDup_aux : forall cs ld l k,
  NoDup (candidates cs ld k l) /\ (forall i, In i (candidates cs ld k l) -> k <= i).
Proof.
  intros cs ld. induction l as [|[name c] r IH]; intros k; cbn [candidates].
  - split; [constructor | intros i []].
  - destruct (IH (S k)) as [H1 H2]. destruct (cs && N.eqb name ld).
    + split; auto. intros i Hi. specialize (H2 i Hi). lia.
    + split.
      * constructor; auto. intros Hk. specialize (H2 k Hk). lia.
      * intros i [<-|Hi]; [lia|]. specialize (H2 i Hi). lia.
Qed.

Lemma candidates_NoDup : forall cs ld l, NoDup (candidates cs ld 0 l).
Proof. intros. apply candidates_NoDup_aux. Qed.

Lemma candidates_length : forall cs ld l k, length (candidates cs ld k l) <= length l.
Proof.
  intros cs ld. induction l as [|[name c] r IH]; intros k; cbn [candidates length]; [lia|].
  specialize (IH (S k)). destruct (cs && N.eqb name ld); cbn [length]; lia.
Qed.

(** When the local data centre is skipped and is in the map, one candidate fewer. *)
Lemma candidates_length_skip : forall ld l k c,
  lookup ld l = Some c -> S (length (candidates true ld k l)) <= length l.
Proof.
  intros ld. unfold lookup. induction l as [|[name c0] r IH]; intros k c H; cbn [find] in H.
  - discriminate.
  - cbn [candidates length fst] in *. cbn [andb]. destruct (N.eqb name ld) eqn:E.
    + pose proof (candidates_length true ld r (S k)). lia.
    + cbn [length]. specialize (IH (S k) c H). lia.
Qed.

Lemma main_loop_sound_nil : forall local idxs l ex cnt l' ex' cnt' sel',
  NoDup (lnodes l) -> NoDup idxs ->
  main_loop local idxs l ex cnt [] = (l', ex', cnt', sel') ->
  shape l' = shape l /\ NoDup sel' /\ ~ In local sel' /\ incl sel' (lnodes l).
Proof.
  intros local idxs l ex cnt l' ex' cnt' sel' Hwf Hidx H.
  exact (main_loop_sound local idxs l ex cnt [] l' ex' cnt' sel' Hwf Hidx (NoDup_nil N)
           (fun f => f) (incl_nil_l _) (fun x i f _ => False_ind _ f) H).
Qed.

Section SelectN.
  Variables (local local_dc : N) (n total : nat) (choice : list nat) (l : layout).

  (** Soundness: for every layout with pairwise different addresses, whatever the cursors,
      whatever [total_nodes] and whatever (duplicate-free) choice of data centres. *)
  Lemma select_n_sound : forall b res l',
    NoDup (lnodes l) -> NoDup choice ->
    select_n_gen b local local_dc n total choice l = (res, l') ->
    shape l' = shape l /\
    forall sel, res = Ok sel -> NoDup sel /\ ~ In local sel /\ incl sel (lnodes l).
  Proof.
    intros b res l' Hwf Hch H. unfold select_n_gen in H.
    set (cs := can_skip_local local_dc n total l) in *.
    set (nd := num_dcs local_dc n total l) in *.
    set (idxs := if nd <=? n then candidates cs local_dc 0 l else choice) in *.
    destruct (main_loop local idxs l _ _ []) as [[[l1 ex1] cnt1] sel1] eqn:Em.
    assert (NoDup idxs) as Hidx.
    { subst idxs. destruct (nd <=? n); [apply candidates_NoDup | exact Hch]. }
    apply main_loop_sound_nil in Em; auto.
    destruct Em as (Hsh & Hnd1 & Hloc1 & Hi1). injection H as <- <-. split; auto.
    assert (lnodes l1 = lnodes l) as Hln by (now rewrite !lnodes_shape, Hsh).
    intros sel Hsel. destruct b.
    - destruct (topup_sound n local (lnodes l1) sel1 Hnd1 Hloc1) as (T1 & T2 & T3 & T4).
      destruct (n <=? length _); [|discriminate]. injection Hsel as <-.
      repeat split; auto. intros x Hx. specialize (T3 x Hx). apply in_app_iff in T3.
      rewrite Hln in T3. destruct T3; auto.
    - destruct (n <=? length _); [|discriminate]. injection Hsel as <-. auto.
  Qed.

  (** Never more than [n]: needs the local data centre to be in the map whenever it is
      skipped (it is, when the local node is listed under it) and a choice of [n]. *)
  Lemma select_n_at_most : forall res l' sel,
    (can_skip_local local_dc n total l = true -> lookup local_dc l <> None) ->
    length choice = n ->
    select_n local local_dc n total choice l = (res, l') -> res = Ok sel -> length sel = n.
  Proof.
    intros res l' sel Hld Hch H Hres. unfold select_n, select_n_gen in H.
    set (cs := can_skip_local local_dc n total l) in *.
    set (nd := num_dcs local_dc n total l) in *.
    set (idxs := if nd <=? n then candidates cs local_dc 0 l else choice) in *.
    set (ex0 := if nd <=? n then n - nd else 0) in *.
    destruct (main_loop local idxs l ex0 _ []) as [[[l1 ex1] cnt1] sel1] eqn:Em.
    apply main_loop_count in Em. cbn [length] in Em.
    assert (ex0 + length idxs <= n) as Hbudget.
    { subst ex0 idxs. destruct (nd <=? n) eqn:E; [|lia]. apply Nat.leb_le in E.
      subst nd. unfold num_dcs in *. fold cs in E |- *. destruct cs eqn:Ecs.
      - destruct (lookup local_dc l) as [c|] eqn:El; [|exfalso; now apply Hld].
        pose proof (candidates_length_skip local_dc l 0 c El). lia.
      - pose proof (candidates_length false local_dc l 0). lia. }
    injection H as <- <-.
    pose proof (topup_length n local (lnodes l1) sel1 ltac:(lia)) as Hle.
    destruct (n <=? length (topup n local (lnodes l1) sel1)) eqn:E; [|discriminate].
    apply Nat.leb_le in E. injection Hres as <-. lia.
  Qed.

  (** NotEnoughNodes is reported only when fewer than [n] other nodes exist. *)
  Lemma select_n_err : forall res l' live req,
    NoDup (lnodes l) -> NoDup choice ->
    select_n local local_dc n total choice l = (res, l') -> res = NotEnough live req ->
    req = n /\ live = length (others local l) /\ length (others local l) < n.
  Proof.
    intros res l' live req Hwf Hch H Hres. unfold select_n, select_n_gen in H.
    set (cs := can_skip_local local_dc n total l) in *.
    set (nd := num_dcs local_dc n total l) in *.
    set (idxs := if nd <=? n then candidates cs local_dc 0 l else choice) in *.
    destruct (main_loop local idxs l _ _ []) as [[[l1 ex1] cnt1] sel1] eqn:Em.
    assert (NoDup idxs) as Hidx.
    { subst idxs. destruct (nd <=? n); [apply candidates_NoDup | exact Hch]. }
    apply main_loop_sound_nil in Em; auto.
    destruct Em as (Hsh & Hnd1 & Hloc1 & Hi1).
    assert (lnodes l1 = lnodes l) as Hln by (now rewrite !lnodes_shape, Hsh).
    injection H as <- <-.
    destruct (topup_sound n local (lnodes l1) sel1 Hnd1 Hloc1) as (T1 & T2 & T3 & T4).
    destruct (n <=? length (topup n local (lnodes l1) sel1)) eqn:E; [discriminate|].
    apply Nat.leb_gt in E. injection Hres as <- <-.
    pose proof (topup_complete n local (lnodes l1) sel1 E) as Hall.
    set (t := topup n local (lnodes l1) sel1) in *.
    assert (length t = length (others local l)) as Hlen.
    { apply Nat.le_antisymm.
      - apply NoDup_incl_length; auto. intros x Hx. unfold others. apply not_local_In. split.
        + specialize (T3 x Hx). apply in_app_iff in T3. rewrite Hln in T3. destruct T3; auto.
        + intros ->. contradiction.
      - apply NoDup_incl_length.
        + unfold others. now apply NoDup_filter.
        + intros x Hx. unfold others in Hx. apply not_local_In in Hx as [Hx Hne].
          apply Hall; auto. now rewrite Hln. }
    repeat split; auto. lia.
  Qed.
End SelectN.

(** ** Quorum *)

Lemma heads_tails_perm : forall its : list (list N),
  Permutation (concat its) (heads its ++ concat (map (@tl N) its)).
Proof.
  induction its as [|[|x xs] r IH]; cbn [concat heads map tl app]; auto.
  constructor. rewrite IH. rewrite !app_assoc. apply Permutation_app_tail, Permutation_app_comm.
Qed.

Lemma heads_nil : forall its : list (list N), heads its = [] -> concat its = [].
Proof.
  induction its as [|[|x xs] r IH]; cbn [heads concat app]; auto. discriminate.
Qed.

Lemma quorum_loop_spec : forall fuel maj its sel O,
  length (concat its) < fuel -> Permutation (sel ++ concat its) O ->
  match quorum_loop fuel maj its sel with
  | Ok s => maj <= length s /\ exists rest, Permutation (s ++ rest) O
  | NotEnough live req => req = maj /\ live = length O /\ length O < maj
  end.
Proof.
  induction fuel as [|f IH]; intros maj its sel O Hf HP; [lia|].
  cbn [quorum_loop]. destruct (maj <=? length sel) eqn:E.
  - apply Nat.leb_le in E. split; eauto.
  - apply Nat.leb_gt in E. destruct (heads its) as [|h hs] eqn:Eh.
    + apply heads_nil in Eh. rewrite Eh, app_nil_r in HP.
      apply Permutation_length in HP. repeat split; lia.
    + rewrite <- Eh. apply IH.
      * pose proof (Permutation_length (heads_tails_perm its)) as HL.
        rewrite app_length, Eh in HL. cbn [length] in HL. lia.
      * rewrite <- app_assoc. rewrite <- heads_tails_perm. exact HP.
Qed.

Lemma select_quorum_spec : forall local total l,
  NoDup (lnodes l) ->
  match select_quorum local total l with
  | Ok s => total / 2 <= length s /\ NoDup s /\ ~ In local s /\ incl s (lnodes l)
  | NotEnough live req =>
    req = total / 2 /\ live = length (others local l) /\ length (others local l) < total / 2
  end.
Proof.
  intros local total l Hwf. unfold select_quorum.
  assert (concat (map (dc_others local) l) = others local l) as Hc.
  { unfold dc_others, others, lnodes. apply concat_map_filter. }
  pose proof (quorum_loop_spec (S (length (concat (map (dc_others local) l)))) (total / 2)
                (map (dc_others local) l) [] (others local l)) as H.
  cbn [app] in H. rewrite Hc in H. specialize (H ltac:(lia) (Permutation_refl _)).
  rewrite Hc. destruct (quorum_loop _ _ _ _) as [s|live req]; auto.
  destruct H as [Hlen [rest HP]]. split; auto.
  assert (NoDup (others local l)) as HndO by (unfold others; now apply NoDup_filter).
  assert (NoDup (s ++ rest)) as Hnd.
  { eapply Permutation_NoDup; [apply Permutation_sym; exact HP | exact HndO]. }
  apply NoDup_app_iff in Hnd as [Hs _].
  assert (forall x, In x s -> In x (others local l)) as Hin.
  { intros x Hx. eapply Permutation_in; [exact HP|]. apply in_or_app. now left. }
  repeat split; auto.
  - intros Hl. apply Hin in Hl. unfold others in Hl. apply not_local_In in Hl. tauto.
  - intros x Hx. apply Hin in Hx. unfold others in Hx. apply not_local_In in Hx. tauto.
Qed.

(** ** LocalQuorum, All, EachQuorum *)

Lemma lookup_In : forall name l c, lookup name l = Some c -> In (name, c) l.
Proof.
  unfold lookup. intros name. induction l as [|[nm c0] r IH]; intros c H; cbn [find] in H.
  - discriminate.
  - cbn [fst] in H. destruct (N.eqb_spec nm name) as [->|Hne].
    + cbn in H. injection H as ->. now left.
    + right. now apply IH.
Qed.

Lemma dc_nodes_incl : forall d l, In d l -> incl (cnodes (snd d)) (lnodes l).
Proof.
  intros d l Hin. unfold lnodes. apply In_concat_incl. apply in_map_iff. eauto.
Qed.

Lemma dc_nodes_NoDup : forall d l, NoDup (lnodes l) -> In d l -> NoDup (cnodes (snd d)).
Proof.
  intros d l Hwf Hin. eapply NoDup_concat_In; [exact Hwf|]. apply in_map_iff. eauto.
Qed.

Lemma select_local_quorum_sound : forall local local_dc l,
  NoDup (lnodes l) ->
  let s := select_local_quorum local local_dc l in
  NoDup s /\ ~ In local s /\ incl s (lnodes l) /\ local_dc_len local_dc l / 2 <= length s.
Proof.
  intros local local_dc l Hwf. unfold select_local_quorum, local_dc_len. cbn zeta.
  destruct (lookup local_dc l) as [c|] eqn:El.
  - apply lookup_In in El.
    pose proof (dc_nodes_NoDup _ _ Hwf El) as Hc. pose proof (dc_nodes_incl _ _ El) as Hi.
    cbn [snd] in Hc, Hi. repeat split.
    + apply NoDup_firstn. now apply NoDup_filter.
    + intros H. apply In_firstn, not_local_In in H. tauto.
    + intros x Hx. apply In_firstn, not_local_In in Hx. apply Hi. tauto.
    + rewrite firstn_length. pose proof (filter_length_le_S local (cnodes c) Hc).
      lia.
  - repeat split; [constructor | intros [] | intros x [] | cbn; lia].
Qed.

Lemma select_all_sound : forall local l,
  NoDup (lnodes l) ->
  NoDup (select_all local l) /\ ~ In local (select_all local l) /\
  incl (select_all local l) (lnodes l).
Proof.
  intros local l Hwf. unfold select_all. repeat split.
  - now apply NoDup_filter.
  - intros H. apply not_local_In in H. tauto.
  - intros x Hx. apply not_local_In in Hx. tauto.
Qed.

Lemma select_each_quorum_sound : forall local local_dc l,
  NoDup (lnodes l) ->
  let s := select_each_quorum local local_dc l in
  NoDup s /\ ~ In local s /\ incl s (lnodes l).
Proof.
  intros local local_dc. unfold select_each_quorum, lnodes.
  induction l as [|d r IH]; intros Hwf; cbn [map concat].
  - repeat split; [constructor | intros [] | intros x []].
  - cbn [map concat] in Hwf. apply NoDup_app_iff in Hwf as [Hd [Hr Hdis]].
    destruct (IH Hr) as (I1 & I2 & I3).
    assert (forall x, In x (firstn (each_majority local_dc d) (dc_others local d)) ->
                      In x (cnodes (snd d)) /\ x <> local) as Hsub.
    { intros x Hx. apply In_firstn in Hx. unfold dc_others in Hx. now apply not_local_In in Hx. }
    repeat split.
    + apply NoDup_app_iff. repeat split; auto.
      * apply NoDup_firstn. unfold dc_others. now apply NoDup_filter.
      * intros x Hx Hx2. apply Hsub in Hx. apply I3 in Hx2. exact (Hdis x (proj1 Hx) Hx2).
    + intros H. apply in_app_iff in H as [H|H]; [apply Hsub in H; tauto | tauto].
    + intros x Hx. apply in_app_iff in Hx as [Hx|Hx]; apply in_or_app.
      * left. apply Hsub in Hx. tauto.
      * right. now apply I3.
Qed.

(** The local node is listed under its own data centre and nowhere else. *)
Definition local_home (local local_dc : N) (l : layout) : Prop :=
  forall d, In d l -> In local (cnodes (snd d)) -> fst d = local_dc.

Lemma select_each_quorum_enough : forall local local_dc l,
  NoDup (lnodes l) -> local_home local local_dc l ->
  required local local_dc l LEachQuorum <= length (select_each_quorum local local_dc l).
Proof.
  intros local local_dc. unfold select_each_quorum, required, local_home.
  induction l as [|d r IH]; intros Hwf Hhome; cbn [map concat fold_right]; [cbn; lia|].
  pose proof (dc_nodes_NoDup d (d :: r) Hwf (or_introl eq_refl)) as Hd.
  unfold lnodes in Hwf. cbn [map concat] in Hwf. apply NoDup_app_iff in Hwf as [_ [Hr _]].
  specialize (IH Hr (fun d0 H0 => Hhome d0 (or_intror H0))).
  rewrite app_length. apply Nat.add_le_mono; [|exact IH].
  rewrite firstn_length. unfold each_required, each_majority, dc_others.
  pose proof (filter_length_le_S local (cnodes (snd d)) Hd) as Hf.
  destruct (N.eqb_spec (fst d) local_dc) as [He|He].
  - lia.
  - rewrite filter_not_local_id; [lia|]. intros Hl. apply He. apply Hhome; auto. now left.
Qed.

(** ** All levels together *)

Definition local_listed (local local_dc : N) (l : layout) : Prop :=
  exists c, lookup local_dc l = Some c /\ In local (cnodes c).

Lemma local_listed_home : forall local local_dc l,
  NoDup (lnodes l) -> local_listed local local_dc l -> local_home local local_dc l.
Proof.
  intros local local_dc. unfold local_listed, local_home, lookup, lnodes.
  induction l as [|[nm c0] r IH]; intros Hwf [c [Hl Hin]] d Hd Hloc; [destruct Hd|].
  cbn [map concat snd] in Hwf. apply NoDup_app_iff in Hwf as [_ [Hr Hdis]].
  cbn [find fst] in Hl. destruct (N.eqb_spec nm local_dc) as [->|Hne].
  - cbn in Hl. injection Hl as ->. destruct Hd as [<-|Hd]; [reflexivity|].
    exfalso. apply (Hdis local Hin). exact (dc_nodes_incl d r Hd local Hloc).
  - destruct Hd as [<-|Hd].
    + exfalso. cbn [snd] in Hloc. apply (Hdis local Hloc).
      assert (In (local_dc, c) r) as Hc by (apply lookup_In; exact Hl).
      exact (dc_nodes_incl _ r Hc local Hin).
    + apply IH; eauto.
Qed.

Theorem select_nodes_sound : forall local local_dc total choice l lv res l',
  NoDup (lnodes l) -> NoDup choice ->
  select_nodes local local_dc total choice l lv = (res, l') ->
  shape l' = shape l /\
  forall sel, res = Ok sel -> NoDup sel /\ ~ In local sel /\ incl sel (lnodes l).
Proof.
  intros local local_dc total choice l lv res l' Hwf Hch H.
  unfold select_nodes, select_nodes_gen in H. destruct lv;
    try (eapply select_n_sound; eauto; fail); injection H as <- <-; split; auto; intros sel Hs.
  - injection Hs as <-. repeat split; [constructor | intros [] | intros x []].
  - pose proof (select_quorum_spec local total l Hwf) as Hq. rewrite Hs in Hq. tauto.
  - injection Hs as <-. pose proof (select_local_quorum_sound local local_dc l Hwf). cbn zeta in *. tauto.
  - injection Hs as <-. now apply select_all_sound.
  - injection Hs as <-. now apply select_each_quorum_sound.
Qed.

Theorem select_nodes_enough : forall local local_dc choice l lv sel l',
  NoDup (lnodes l) -> local_listed local local_dc l ->
  (forall n, level_n lv = Some n -> length choice = n) ->
  select_nodes local local_dc (length (lnodes l)) choice l lv = (Ok sel, l') ->
  required local local_dc l lv <= length sel /\
  (forall n, level_n lv = Some n -> length sel = n).
Proof.
  intros local local_dc choice l lv sel l' Hwf Hll Hch H.
  assert (forall n, can_skip_local local_dc n (length (lnodes l)) l = true ->
                    lookup local_dc l <> None) as Hld.
  { intros n _. destruct Hll as [c [-> _]]. discriminate. }
  unfold select_nodes, select_nodes_gen in H. destruct lv; cbn [required level_n].
  - injection H as <- <-. split; [cbn; lia | discriminate].
  - pose proof (select_n_at_most _ _ _ _ _ _ _ _ sel (Hld 1) (Hch 1 eq_refl) H eq_refl).
    split; [lia | intros n [= <-]; auto].
  - pose proof (select_n_at_most _ _ _ _ _ _ _ _ sel (Hld 2) (Hch 2 eq_refl) H eq_refl).
    split; [lia | intros n [= <-]; auto].
  - pose proof (select_n_at_most _ _ _ _ _ _ _ _ sel (Hld 3) (Hch 3 eq_refl) H eq_refl).
    split; [lia | intros n [= <-]; auto].
  - injection H as Hq <-. pose proof (select_quorum_spec local (length (lnodes l)) l Hwf) as Hs.
    rewrite Hq in Hs. split; [tauto | discriminate].
  - injection H as <- <-. pose proof (select_local_quorum_sound local local_dc l Hwf).
    cbn zeta in *. split; [tauto | discriminate].
  - injection H as <- <-. split; [unfold others, select_all; lia | discriminate].
  - injection H as <- <-. split; [|discriminate].
    apply select_each_quorum_enough; auto. now apply local_listed_home.
Qed.

Theorem select_nodes_err : forall local local_dc choice l lv live req l',
  NoDup (lnodes l) -> NoDup choice ->
  select_nodes local local_dc (length (lnodes l)) choice l lv = (NotEnough live req, l') ->
  req = required local local_dc l lv /\ live = length (others local l) /\
  length (others local l) < required local local_dc l lv.
Proof.
  intros local local_dc choice l lv live req l' Hwf Hch H.
  unfold select_nodes, select_nodes_gen in H. destruct lv; cbn [required];
    try (eapply select_n_err; eauto; fail); try discriminate.
  injection H as Hq <-. pose proof (select_quorum_spec local (length (lnodes l)) l Hwf) as Hs.
  rewrite Hq in Hs. exact Hs.
Qed.

(** ** The actor *)

Definition new_wf (new : list (N * list N)) : Prop := NoDup (concat (map snd new)).

Definition op_wf (o : op) : Prop :=
  match o with
  | SetNodes new => new_wf new
  | GetNodes _ choice => NoDup choice
  | Expire _ => True
  end.

(** The membership installed by the last [SetNodes] of [ops] ([cur] if there is none). *)
Fixpoint last_set (ops : list op) (cur : list (N * list N)) : list (N * list N) :=
  match ops with
  | [] => cur
  | SetNodes new :: r => last_set r new
  | _ :: r => last_set r cur
  end.

Definition sel_sound (local : N) (new : list (N * list N)) (s : list N) : Prop :=
  NoDup s /\ ~ In local s /\ incl s (concat (map snd new)).

Definition actor_inv (local : N) (new : list (N * list N)) (a : actor) : Prop :=
  shape (a_lay a) = new /\ a_total a = length (concat (map snd new)) /\
  forall lv s, In (lv, s) (a_cache a) -> sel_sound local new s.

Lemma total_of_length : forall new, total_of new = length (concat (map snd new)).
Proof.
  unfold total_of. intros new.
  assert (forall k, fold_left (fun acc d => acc + length (snd d)) new k
                    = k + length (concat (map snd new))) as H.
  { induction new as [|d r IH]; intros k; cbn [fold_left map concat length]; [lia|].
    rewrite IH, app_length. lia. }
  apply H.
Qed.

Lemma shape_fresh : forall new, shape (fresh_layout new) = new.
Proof.
  unfold shape, fresh_layout. induction new as [|[nm ns] r IH]; [reflexivity|].
  cbn [map fst snd cnodes]. now rewrite IH.
Qed.

Lemma cache_get_In : forall lv cache s, cache_get lv cache = Some s -> exists lv', In (lv', s) cache.
Proof.
  induction cache as [|[lv' s'] r IH]; intros s H; cbn [cache_get] in H; [discriminate|].
  destruct (level_eqb lv' lv).
  - injection H as ->. exists lv'. now left.
  - destruct (IH s H) as [lv'' Hin]. exists lv''. now right.
Qed.

Lemma cache_remove_In : forall lv cache e, In e (cache_remove lv cache) -> In e cache.
Proof. intros lv cache e H. unfold cache_remove in H. apply filter_In in H. tauto. Qed.

Lemma actor_step_inv : forall local local_dc new a o a' rep,
  new_wf new -> actor_inv local new a -> op_wf o ->
  actor_step local local_dc a o = (a', rep) ->
  actor_inv local (last_set [o] new) a' /\
  (forall sel, rep = Some (Ok sel) -> sel_sound local new sel).
Proof.
  intros local local_dc new a o a' rep Hwf [Hsh [Htot Hcache]] Ho H.
  assert (lnodes (a_lay a) = concat (map snd new)) as Hln by (now rewrite lnodes_shape, Hsh).
  unfold actor_step, actor_step_gen in H. destruct o as [new'|lv choice|lv]; cbn [last_set op_wf] in *.
  - injection H as <- <-. split; [|discriminate]. repeat split; cbn [a_lay a_cache a_total].
    + apply shape_fresh.
    + apply total_of_length.
    + destruct H.
    + destruct H.
    + destruct H.
  - destruct (cache_get lv (a_cache a)) as [s|] eqn:Ec.
    + injection H as <- <-. split; [repeat split; auto; apply (Hcache lv0 s0); auto|].
      intros sel [= <-]. destruct (cache_get_In _ _ _ Ec) as [lv' Hin]. eauto.
    + destruct (select_nodes_gen true local local_dc (a_total a) choice (a_lay a) lv) as [res l'] eqn:Es.
      injection H as <- <-.
      destruct (select_nodes_sound _ _ _ _ _ _ _ _ ltac:(rewrite Hln; exact Hwf) Ho Es) as [Hsh' Hsound].
      assert (forall sel, res = Ok sel -> sel_sound local new sel) as Hres.
      { intros sel Hr. unfold sel_sound. rewrite <- Hln. now apply Hsound. }
      split; [|intros sel [= Hr]; now apply Hres].
      split; [|split]; cbn [a_lay a_cache a_total]; [congruence | exact Htot |].
      intros lv0 s Hin. destruct res as [s0|lv1 rq].
      * destruct Hin as [[= <- <-]|Hin]; [now apply Hres|].
        apply cache_remove_In in Hin. eauto.
      * eauto.
  - injection H as <- <-. split; [|discriminate]. split; [|split]; cbn [a_lay a_cache a_total]; auto.
    intros lv0 s Hin. apply cache_remove_In in Hin. eauto.
Qed.

Lemma last_set_wf : forall ops new, Forall op_wf ops -> new_wf new -> new_wf (last_set ops new).
Proof.
  induction ops as [|o r IH]; intros new Hops Hnew; cbn [last_set]; auto.
  apply Forall_cons_iff in Hops as [Ho Hr]. destruct o; auto.
Qed.

Lemma actor_run_inv : forall local local_dc ops new a a' reps,
  new_wf new -> actor_inv local new a -> Forall op_wf ops ->
  actor_run local local_dc ops a = (a', reps) ->
  actor_inv local (last_set ops new) a'.
Proof.
  intros local local_dc. unfold actor_run.
  induction ops as [|o r IH]; intros new a a' reps Hwf Hinv Hops H; cbn [actor_run_gen last_set] in *.
  - injection H as <- <-. exact Hinv.
  - apply Forall_cons_iff in Hops as [Ho Hr].
    destruct (actor_step_gen true true local local_dc a o) as [a1 rep] eqn:Es.
    destruct (actor_run_gen true true local local_dc r a1) as [a2 reps2] eqn:Er.
    injection H as <- <-.
    destruct (actor_step_inv _ _ _ _ _ _ _ Hwf Hinv Ho Es) as [Hinv1 _].
    assert (new_wf (last_set [o] new)) as Hwf1 by (apply last_set_wf; auto).
    specialize (IH _ _ _ _ Hwf1 Hinv1 Hr Er).
    destruct o; exact IH.
Qed.

(** Whatever was installed, selected, cached or expired before: an answer of the actor is
    duplicate-free, excludes the local node and draws from the membership installed by
    the last [SetNodes] only. *)
Theorem actor_draws_from_last_update : forall local local_dc ops lv choice sel,
  Forall op_wf ops -> NoDup choice ->
  let a := fst (actor_run local local_dc ops actor_init) in
  snd (actor_step local local_dc a (GetNodes lv choice)) = Some (Ok sel) ->
  NoDup sel /\ ~ In local sel /\ incl sel (concat (map snd (last_set ops []))).
Proof.
  intros local local_dc ops lv choice sel Hops Hch a H.
  destruct (actor_run local local_dc ops actor_init) as [a' reps] eqn:Er. subst a. cbn [fst] in H.
  assert (new_wf []) as Hwf0 by constructor.
  assert (actor_inv local [] actor_init) as Hinv0.
  { split; [reflexivity | split; [reflexivity | intros lv0 s []]]. }
  pose proof (actor_run_inv _ _ _ _ _ _ _ Hwf0 Hinv0 Hops Er) as Hinv.
  destruct (actor_step local local_dc a' (GetNodes lv choice)) as [a2 rep] eqn:Es.
  cbn [snd] in H.
  destruct (actor_step_inv local local_dc _ a' (GetNodes lv choice) a2 rep
              (last_set_wf _ _ Hops Hwf0) Hinv Hch Es) as [_ Hrep].
  exact (Hrep sel H).
Qed.

(** After any operations the actor's layout is exactly the membership of the last
    [SetNodes] (names and nodes; data centres that left are gone), and [total_nodes] is
    its size. *)
Theorem actor_layout_is_last_update : forall local local_dc ops,
  Forall op_wf ops ->
  let a := fst (actor_run local local_dc ops actor_init) in
  shape (a_lay a) = last_set ops [] /\ a_total a = length (lnodes (a_lay a)).
Proof.
  intros local local_dc ops Hops a.
  destruct (actor_run local local_dc ops actor_init) as [a' reps] eqn:Er. subst a. cbn [fst].
  assert (new_wf []) as Hwf0 by constructor.
  assert (actor_inv local [] actor_init) as Hinv0.
  { split; [reflexivity | split; [reflexivity | intros lv0 s []]]. }
  destruct (actor_run_inv _ _ _ _ _ _ _ Hwf0 Hinv0 Hops Er) as [Hsh [Htot _]].
  split; auto. now rewrite lnodes_shape, Hsh.
Qed.

(** A fresh (not cached) selection of the actor selects enough, exactly [n] for
    One/Two/Three, and fails only when too few other nodes exist. *)
Theorem actor_fresh_selection_count : forall local local_dc ops lv choice,
  Forall op_wf ops -> NoDup choice ->
  (forall n, level_n lv = Some n -> length choice = n) ->
  let a := fst (actor_run local local_dc ops actor_init) in
  cache_get lv (a_cache a) = None ->
  local_listed local local_dc (a_lay a) ->
  match snd (actor_step local local_dc a (GetNodes lv choice)) with
  | Some (Ok sel) =>
    required local local_dc (a_lay a) lv <= length sel /\
    (forall n, level_n lv = Some n -> length sel = n)
  | Some (NotEnough live req) =>
    length (others local (a_lay a)) < required local local_dc (a_lay a) lv
  | None => False
  end.
Proof.
  intros local local_dc ops lv choice Hops Hch Hlen a Hmiss Hll.
  destruct (actor_layout_is_last_update local local_dc ops Hops) as [Hsh Htot]. fold a in Hsh, Htot.
  assert (NoDup (lnodes (a_lay a))) as Hwf.
  { rewrite lnodes_shape, Hsh. apply (last_set_wf ops [] Hops). constructor. }
  unfold actor_step, actor_step_gen. rewrite Hmiss, Htot.
  destruct (select_nodes_gen true local local_dc (length (lnodes (a_lay a))) choice (a_lay a) lv)
    as [res l'] eqn:Es. cbn [snd]. destruct res as [sel|live req].
  - eapply select_nodes_enough; eauto.
  - eapply select_nodes_err; eauto.
Qed.

(** ** Cached answers satisfy the count clauses too

    A cache entry is an earlier fresh answer on the SAME membership (every update clears the
    cache; selections move cursors but never change the shape), and the count clauses speak
    about the shape only. *)

Lemma level_eqb_eq : forall a b, level_eqb a b = true -> a = b.
Proof. destruct a, b; cbn; intros H; try reflexivity; discriminate. Qed.

Lemma cache_get_In_lv : forall lv cache s, cache_get lv cache = Some s -> In (lv, s) cache.
Proof.
  induction cache as [|[lv' s'] r IH]; intros s H; cbn [cache_get] in H; [discriminate|].
  destruct (level_eqb lv' lv) eqn:E.
  - injection H as ->. apply level_eqb_eq in E. subst. now left.
  - right. now apply IH.
Qed.

Lemma shape_cons_inv : forall (d d' : dc) l l',
  shape (d :: l) = shape (d' :: l') ->
  fst d = fst d' /\ cnodes (snd d) = cnodes (snd d') /\ shape l = shape l'.
Proof. unfold shape. cbn [map]. intros d d' l l' [= H1 H2 H3]. auto. Qed.

Lemma shape_lookup : forall name l l',
  shape l = shape l' ->
  option_map cnodes (lookup name l) = option_map cnodes (lookup name l').
Proof.
  unfold lookup. induction l as [|d r IH]; intros [|d' r'] H; try discriminate; [reflexivity|].
  apply shape_cons_inv in H as (Hn & Hc & Hr). cbn [find]. rewrite <- Hn.
  destruct (N.eqb (fst d) name); cbn [option_map]; [now rewrite Hc|]. now apply IH.
Qed.

Lemma shape_local_listed : forall local local_dc l l',
  shape l = shape l' -> local_listed local local_dc l -> local_listed local local_dc l'.
Proof.
  intros local local_dc l l' Hs [c [Hl Hin]]. pose proof (shape_lookup local_dc l l' Hs) as E.
  rewrite Hl in E. cbn [option_map] in E. destruct (lookup local_dc l') as [c'|] eqn:El'; [|discriminate].
  cbn in E. injection E as E. exists c'. split; [exact El'|]. now rewrite <- E.
Qed.

Lemma shape_required : forall local local_dc l l' lv,
  shape l = shape l' -> required local local_dc l lv = required local local_dc l' lv.
Proof.
  intros local local_dc l l' lv Hs.
  assert (lnodes l = lnodes l') as Hln by (now rewrite !lnodes_shape, Hs).
  destruct lv; cbn [required]; try reflexivity.
  - now rewrite Hln.
  - unfold local_dc_len. pose proof (shape_lookup local_dc l l' Hs) as E.
    destruct (lookup local_dc l) as [c|], (lookup local_dc l') as [c'|]; cbn in E; try discriminate; [|reflexivity].
    injection E as ->. reflexivity.
  - unfold others. now rewrite Hln.
  - revert l' Hs Hln. induction l as [|d r IH]; intros [|d' r'] Hs Hln; try discriminate; [reflexivity|].
    apply shape_cons_inv in Hs as (Hn & Hc & Hr). cbn [fold_right].
    assert (each_required local_dc d = each_required local_dc d') as ->.
    { unfold each_required, each_majority. now rewrite Hn, Hc. }
    f_equal. apply IH; [exact Hr|]. now rewrite !lnodes_shape, Hr.
Qed.

Definition op_wf_count (o : op) : Prop :=
  op_wf o /\ match o with
             | GetNodes lv choice => forall n, level_n lv = Some n -> length choice = n
             | _ => True
             end.

Definition count_ok (local local_dc : N) (l : layout) (lv : level) (s : list N) : Prop :=
  local_listed local local_dc l ->
  required local local_dc l lv <= length s /\ (forall n, level_n lv = Some n -> length s = n).

Definition cache_count_ok (local local_dc : N) (a : actor) : Prop :=
  forall lv s, In (lv, s) (a_cache a) -> count_ok local local_dc (a_lay a) lv s.

Lemma count_ok_shape : forall local local_dc l l' lv s,
  shape l = shape l' -> count_ok local local_dc l lv s -> count_ok local local_dc l' lv s.
Proof.
  intros local local_dc l l' lv s Hs H Hll. rewrite <- (shape_required local local_dc l l' lv Hs).
  apply H. apply (shape_local_listed local local_dc l' l); auto.
Qed.

Lemma actor_step_count : forall local local_dc new a o a' rep,
  new_wf new -> actor_inv local new a -> cache_count_ok local local_dc a -> op_wf_count o ->
  actor_step local local_dc a o = (a', rep) ->
  cache_count_ok local local_dc a' /\
  forall lv choice, o = GetNodes lv choice ->
    match rep with
    | Some (Ok sel) => count_ok local local_dc (a_lay a) lv sel
    | Some (NotEnough live req) =>
      length (others local (a_lay a)) < required local local_dc (a_lay a) lv
    | None => False
    end.
Proof.
  intros local local_dc new a o a' rep Hwf [Hsh [Htot Hcache]] Hcc [Ho Hcnt] H.
  assert (lnodes (a_lay a) = concat (map snd new)) as Hln by (now rewrite lnodes_shape, Hsh).
  assert (NoDup (lnodes (a_lay a))) as Hnd by (rewrite Hln; exact Hwf).
  unfold actor_step, actor_step_gen in H. destruct o as [new'|lv choice|lv]; cbn [op_wf] in *.
  - injection H as <- <-. split; [|discriminate]. intros lv s [].
  - destruct (cache_get lv (a_cache a)) as [s|] eqn:Ec.
    + injection H as <- <-. split; [exact Hcc|]. intros lv0 choice0 [= <- <-].
      apply Hcc. now apply cache_get_In_lv.
    + rewrite Htot, <- Hln in H.
      destruct (select_nodes_gen true local local_dc (length (lnodes (a_lay a))) choice (a_lay a) lv) as [res l'] eqn:Es.
      injection H as <- <-.
      destruct (select_nodes_sound _ _ _ _ _ _ _ _ Hnd Ho Es) as [Hsh' _].
      assert (forall sel, res = Ok sel -> count_ok local local_dc (a_lay a) lv sel) as Hres.
      { intros sel -> Hll. eapply select_nodes_enough; eauto. }
      split.
      * intros lv0 s Hin. cbn [a_lay a_cache] in *. apply (count_ok_shape local local_dc (a_lay a) l'); [congruence|].
        destruct res as [s0|lv1 rq].
        -- destruct Hin as [[= <- <-]|Hin]; [now apply Hres|]. apply cache_remove_In in Hin. now apply Hcc.
        -- now apply Hcc.
      * intros lv0 choice0 [= <- <-]. destruct res as [sel|live req]; [now apply Hres|].
        eapply select_nodes_err; eauto.
  - injection H as <- <-. split; [|discriminate]. intros lv0 s Hin. cbn [a_lay a_cache] in *.
    apply cache_remove_In in Hin. now apply Hcc.
Qed.

Lemma actor_run_count : forall local local_dc ops new a a' reps,
  new_wf new -> actor_inv local new a -> cache_count_ok local local_dc a -> Forall op_wf_count ops ->
  actor_run local local_dc ops a = (a', reps) ->
  cache_count_ok local local_dc a'.
Proof.
  intros local local_dc. unfold actor_run.
  induction ops as [|o r IH]; intros new a a' reps Hwf Hinv Hcc Hops H; cbn [actor_run_gen] in *.
  - injection H as <- <-. exact Hcc.
  - apply Forall_cons_iff in Hops as [Ho Hr].
    destruct (actor_step_gen true true local local_dc a o) as [a1 rep] eqn:Es.
    destruct (actor_run_gen true true local local_dc r a1) as [a2 reps2] eqn:Er.
    injection H as <- <-.
    destruct (actor_step_inv _ _ _ _ _ _ _ Hwf Hinv (proj1 Ho) Es) as [Hinv1 _].
    destruct (actor_step_count _ _ _ _ _ _ _ Hwf Hinv Hcc Ho Es) as [Hcc1 _].
    assert (new_wf (last_set [o] new)) as Hwf1 by (apply last_set_wf; [constructor; [exact (proj1 Ho)|constructor]|exact Hwf]).
    exact (IH _ _ _ _ Hwf1 Hinv1 Hcc1 Hr Er).
Qed.

(** Every answer of the actor - fresh or served from the cache - selects enough, exactly
    [n] for One/Two/Three, and fails only when too few other nodes exist. *)
Theorem actor_selection_count : forall local local_dc ops lv choice,
  Forall op_wf_count ops -> NoDup choice ->
  (forall n, level_n lv = Some n -> length choice = n) ->
  let a := fst (actor_run local local_dc ops actor_init) in
  local_listed local local_dc (a_lay a) ->
  match snd (actor_step local local_dc a (GetNodes lv choice)) with
  | Some (Ok sel) =>
    required local local_dc (a_lay a) lv <= length sel /\
    (forall n, level_n lv = Some n -> length sel = n)
  | Some (NotEnough live req) =>
    length (others local (a_lay a)) < required local local_dc (a_lay a) lv
  | None => False
  end.
Proof.
  intros local local_dc ops lv choice Hops Hch Hlen a Hll.
  destruct (actor_run local local_dc ops actor_init) as [a' reps] eqn:Er. subst a. cbn [fst] in *.
  assert (new_wf []) as Hwf0 by constructor.
  assert (actor_inv local [] actor_init) as Hinv0.
  { split; [reflexivity | split; [reflexivity | intros lv0 s []]]. }
  assert (cache_count_ok local local_dc actor_init) as Hcc0 by (intros lv0 s []).
  assert (Forall op_wf ops) as Hops'.
  { rewrite Forall_forall in *. intros o Ho. exact (proj1 (Hops o Ho)). }
  pose proof (actor_run_inv _ _ _ _ _ _ _ Hwf0 Hinv0 Hops' Er) as Hinv.
  pose proof (actor_run_count _ _ _ _ _ _ _ Hwf0 Hinv0 Hcc0 Hops Er) as Hcc.
  destruct (actor_step local local_dc a' (GetNodes lv choice)) as [a2 rep] eqn:Es. cbn [snd].
  destruct (actor_step_count local local_dc _ a' (GetNodes lv choice) a2 rep
              (last_set_wf _ _ Hops' Hwf0) Hinv Hcc (conj Hch Hlen) Es) as [_ Hrep].
  specialize (Hrep lv choice eq_refl). destruct rep as [[sel|live req]|]; auto.
Qed.
