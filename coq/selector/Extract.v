(** Extraction of the executable model to OCaml ([ExtrOcamlBasic] only). *)
From Coq Require Import ExtrOcamlBasic NArith List.
From DC Require Import Selector.
Extraction Language OCaml.
Extraction "model.ml"
  N.add N.mul N.eqb N.ltb N.of_nat N.to_nat
  mkcyc cyc_next lookup lnodes candidates can_skip_local num_dcs uses_choice choice_okb
  select_n_gen select_nodes_gen select_nodes legacy_select_nodes run_history
  actor_init fresh_layout actor_step_gen actor_step legacy_actor_step actor_run_gen.
