(** * C14 — Under network faults an RPC answers correctly or fails; never twice or mixed

    Level: "other" (specification + simulation differential).  The theorems below hold
    for every configuration and every sequence of observed events (any number of
    requests, any fault schedule, any times) *of the automaton of [RpcLife.v]*.  They
    are easy because that automaton has no retry transition and keeps the reply in the
    request it was computed for; nothing here is proved about hyper's HTTP/2
    multiplexing, tokio or TCP.  The code is tied to the automaton by execution only:
    hx-sim checks that the traces of the real client and server under seeded fault
    schedules in a turmoil simulation are runs of this automaton (lib/checks/c14.py).

    This file contains only the property theorems (each closed by [exact] of a lemma
    proved in [RpcLifeProofs.v]) and non-vacuity examples. *)

From Coq Require Import NArith List.
From DC Require Import RpcLife RpcLifeProofs.
Import ListNotations.
Open Scope N_scope.

(** In every run each request is executed by the handler at most once. *)
Theorem C14_executed_at_most_once :
  forall c tr s i, run false c st0 tr = Some s -> execs (reqs s i) <= 1.
Proof. exact at_most_once. Qed.

(** A request that returned [Ok v] returned the reply the handler computed for that
    very request, which was executed exactly once. *)
Theorem C14_ok_is_own_reply :
  forall c tr s i v,
    run false c st0 tr = Some s -> cph (reqs s i) = CDone (ROk v) ->
    v = handler (payload c i) /\ execs (reqs s i) = 1 /\ i < c_n c.
Proof. exact ok_is_own_reply. Qed.

(** Replies are never swapped: an [Ok] never carries another request's reply. *)
Theorem C14_replies_not_swapped :
  forall c tr s i j v,
    run false c st0 tr = Some s -> cph (reqs s i) = CDone (ROk v) ->
    handler (payload c j) <> handler (payload c i) -> v <> handler (payload c j).
Proof. exact no_swap. Qed.

(** With a timeout [d] the request has ended by [d] (one observation tick of slack):
    it cannot still be pending later than that, and it ended no later than that. *)
Theorem C14_deadline_respected :
  forall c tr s i d,
    run false c st0 tr = Some s -> q_tmo (rq c i) = Some d ->
    (cph (reqs s i) = CActive -> now s <= t_start (reqs s i) + d + SLACK) /\
    (forall x, cph (reqs s i) = CDone x -> t_end (reqs s i) <= t_start (reqs s i) + d + SLACK).
Proof. exact deadline. Qed.

(** A connection set-up is over (connected, refused or timed out) within the 2 s bound,
    and while it lasts its owner is a live request of that channel. *)
Theorem C14_connect_bounded :
  forall c tr s l o,
    run false c st0 tr = Some s -> lanes s l = LInit o ->
    cph (reqs s o) = CActive /\ q_lane (rq c o) = l /\
    now s <= t_syn (reqs s o) + CONNECT + SLACK.
Proof. exact connect_bounded. Qed.

(** Never twice or mixed: the result a request ended with is its result in every
    continuation of the run. *)
Theorem C14_result_is_final :
  forall c tr1 tr2 s1 s2 i x,
    run false c st0 tr1 = Some s1 -> run false c st0 (tr1 ++ tr2) = Some s2 ->
    cph (reqs s1 i) = CDone x -> cph (reqs s2 i) = CDone x.
Proof. exact result_is_final. Qed.

(** No request ends in a panic. *)
Theorem C14_never_panics :
  forall c tr s i, run false c st0 tr = Some s -> cph (reqs s i) <> CDone RPanic.
Proof. exact never_panics. Qed.

(** Without a timeout a held link may leave a request pending for ever: for every time
    [t] some accepted run is at time [t] with the request still pending. *)
Theorem C14_no_deadline_may_pend :
  forall t, exists s,
    run false one_req st0 (pend_trace t) = Some s /\ now s = t /\
    cph (reqs s 0) = CActive /\ q_tmo (rq one_req 0) = None /\
    verdict false one_req (pend_trace t) = inl [(OPending, 0)].
Proof. exact may_pend. Qed.

(** The connection set-up as it stood before the repair (two concurrent first users of
    one channel both connect; the loser panics) admits a panicking run; the repaired
    automaton rejects that trace. *)
Theorem C14_legacy_concurrent_connect_refuted :
  (exists s, run true two_req st0 race_trace = Some s /\ cph (reqs s 1) = CDone RPanic) /\
  run false two_req st0 race_trace = None.
Proof. exact legacy_race_panics. Qed.

(** Non-vacuity: a concrete run with two requests on one channel, a hold while the
    second is in flight, a slow handler and a timeout is accepted; the first request is
    answered with its own reply, the second times out exactly at its bound after having
    been executed once. *)
Example C14_nonvacuous :
  let c := mk_cfg 7 [mk_rcfg 0 None 0; mk_rcfg 0 (Some 300000) 500000] in
  let tr := [(5000, EStart 0); (5000, ESyn 0 SynClean); (10000, EConn 0); (15000, EExec 0);
             (15000, EDone 0); (20000, EEnd 0 (ROk (handler (payload c 0))));
             (30000, EStart 1); (35000, EExec 1); (36000, EEnv Hold);
             (330000, EEnd 1 RTimeout); (535000, EDone 1); (600000, EHorizon)] in
  verdict false c tr = inl [(OOk (handler (payload c 0)), 1); (OTimeout, 1)] /\
  handler (payload c 0) <> handler (payload c 1) /\
  (* a swapped reply, a second execution and a late timeout are all rejected *)
  verdict false c [(5000, EStart 0); (5000, ESyn 0 SynClean); (10000, EConn 0); (15000, EExec 0);
                   (15000, EDone 0); (20000, EEnd 0 (ROk (handler (payload c 1))))] = inr 5 /\
  verdict false c [(5000, EStart 0); (5000, ESyn 0 SynClean); (10000, EConn 0); (15000, EExec 0);
                   (16000, EExec 0)] = inr 4 /\
  verdict false c [(30000, EStart 1); (340000, EHorizon)] = inr 1.
Proof. vm_compute. repeat split; try reflexivity; discriminate. Qed.
