(** Extraction of the executable model to OCaml ([ExtrOcamlBasic] only). *)
From Coq Require Import ExtrOcamlBasic NArith List.
From DC Require Import RpcLife.
Extraction Language OCaml.
Extraction "model.ml"
  N.add N.mul N.sub N.ltb N.leb N.eqb N.of_nat N.to_nat
  handler payload mk_rcfg mk_cfg st0 step run run_from result_of verdict.
