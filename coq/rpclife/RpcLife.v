(** * RpcLife: life-cycle of RPC requests under network faults (property C14)

    Definitions only (the executable model).  Proofs are in [RpcLifeProofs.v].

    Anchors: datacake-rpc/src/client.rs ([send_inner]: optional [tokio::time::timeout]
    around the send, no retry), net/client.rs + net/simulation.rs ([Channel],
    [LazyClient::get_or_init]: one connection per channel, 2 s connect bound),
    net/server.rs (one handler invocation per request stream).

    What this is.  A *specification automaton* (labelled transition system with
    urgency) over the events one can observe of a run:

      environment:  Partition | Hold | Release | Repair      (the client<->server link)
      per request:  Start -> Syn (connect attempt, if the channel has no connection)
                    -> Connected -> Exec (handler entered) -> Done (handler returned)
                    -> End result          with result in {Ok r | ConnErr | Timeout}

    [step] says whether an observed event is allowed in the current state and what the
    state becomes; time is part of every event and may not pass a point at which the
    code must have acted (a configured timeout, the 2 s connect bound): "urgency".
    The client has *no retry transition*: a request starts once, makes at most one
    connect attempt, is executed only while its execution count is 0, ends once.
    Replies are keyed by request: [Done i] stores [handler (payload i)] in request [i]
    and [End i (Ok r)] is allowed only if that stored value is [r].

    What this is not.  It is not a model of hyper's HTTP/2 machinery, of tokio or of
    TCP: the theorems of [Properties/C14.v] are statements about every run of *this*
    automaton and they are easy precisely because the automaton has no retry and keys
    replies by request.  What ties the automaton to the code is the execution leg:
    [hx-sim] runs the real client and server in a turmoil simulation under seeded
    fault schedules and the observed trace of every run must be a run of this automaton
    ([verdict] prints the per-request results the automaton derives from its own state).

    Times are microseconds of simulated time ([N]). *)

From Coq Require Import NArith List Bool.
Import ListNotations.
Open Scope N_scope.

(** Granularity at which simulated time is observed (one 1 ms simulation tick). *)
Definition SLACK : N := 1000.
(** The connect bound of [LazyClient::get_or_init] / [HttpConnector::set_connect_timeout]. *)
Definition CONNECT : N := 2000000.

(** The reply the echo handler of the harness computes for a request payload. *)
Definition handler (p : N) : N := (p * 2654435761 + 12345) mod 4294967296.

Inductive link := Healthy | Parted | Holding.
Inductive env := Partition | Hold | Release | Repair.

(** Fate of the SYN of a connect attempt: sent on a healthy link (it will arrive),
    sent on a held link (it waits for a [Release]), released after having been held,
    or sent into a partition (dropped: the connect is refused at once).  [SynLost]
    exists only in the [legacy] automaton: the attempt succeeded but another request
    had installed the channel's connection in the meantime. *)
Inductive synst := NoSyn | SynClean | SynHeld | SynReleased | SynDropped | SynLost.

Inductive result := ROk (r : N) | RConnErr | RTimeout | RPanic.
Inductive cphase := CIdle | CActive | CDone (r : result).
Inductive sphase := SNone | SExec | SRepl (r : N).
Inductive lanest := LNone | LInit (owner : N) | LConn.

(** Static description of request [i]: the channel ("lane") it uses, its timeout, the
    time its handler sleeps before replying. *)
Record rcfg := mk_rcfg { q_lane : N; q_tmo : option N; q_delay : N }.
Record cfg := mk_cfg { c_salt : N; c_reqs : list rcfg }.

Definition c_n (c : cfg) : N := N.of_nat (length (c_reqs c)).
Definition rq (c : cfg) (i : N) : rcfg := nth (N.to_nat i) (c_reqs c) (mk_rcfg 0 None 0).
Definition payload (c : cfg) (i : N) : N := (c_salt c * 16 + i) mod 4294967296.
Definition slow (c : cfg) : bool := existsb (fun q => negb (q_delay q =? 0)) (c_reqs c).
Definition ids (c : cfg) : list N := map N.of_nat (seq 0 (length (c_reqs c))).

Record req := mk_req {
  cph : cphase;       (* client side *)
  syn : synst;        (* its connect attempt, if it made one *)
  t_start : N; t_syn : N; t_end : N;
  execs : N;          (* handler invocations *)
  sph : sphase;       (* server side *)
  t_exec : N }.

Record st := mk_st {
  now : N;
  lnk : link;
  faulted : bool;     (* the link has been partitioned or held at some time *)
  lanes : N -> lanest;
  reqs : N -> req }.

Definition req0 : req := mk_req CIdle NoSyn 0 0 0 0 SNone 0.
Definition st0 : st := mk_st 0 Healthy false (fun _ => LNone) (fun _ => req0).

Definition upd {A} (f : N -> A) (i : N) (v : A) : N -> A :=
  fun j => if j =? i then v else f j.

Definition set_now (s : st) (t : N) : st := mk_st t (lnk s) (faulted s) (lanes s) (reqs s).
Definition set_req (s : st) (i : N) (r : req) : st :=
  mk_st (now s) (lnk s) (faulted s) (lanes s) (upd (reqs s) i r).
Definition set_lane (s : st) (l : N) (v : lanest) : st :=
  mk_st (now s) (lnk s) (faulted s) (upd (lanes s) l v) (reqs s).

Definition r_cph (r : req) (c : cphase) : req :=
  mk_req c (syn r) (t_start r) (t_syn r) (t_end r) (execs r) (sph r) (t_exec r).
Definition r_started (r : req) (t : N) : req :=
  mk_req CActive (syn r) t (t_syn r) (t_end r) (execs r) (sph r) (t_exec r).
Definition r_syn (r : req) (f : synst) (t : N) : req :=
  mk_req (cph r) f (t_start r) t (t_end r) (execs r) (sph r) (t_exec r).
Definition r_release (r : req) : req :=
  match syn r with
  | SynHeld => mk_req (cph r) SynReleased (t_start r) (t_syn r) (t_end r) (execs r) (sph r) (t_exec r)
  | _ => r
  end.
Definition r_exec (r : req) (t : N) : req :=
  mk_req (cph r) (syn r) (t_start r) (t_syn r) (t_end r) (execs r + 1) SExec t.
Definition r_done (r : req) (v : N) : req :=
  mk_req (cph r) (syn r) (t_start r) (t_syn r) (t_end r) (execs r) (SRepl v) (t_exec r).
Definition r_end (r : req) (x : result) (t : N) : req :=
  mk_req (CDone x) (syn r) (t_start r) (t_syn r) t (execs r) (sph r) (t_exec r).

Inductive event :=
| EEnv (e : env)
| EStart (i : N)
| ESyn (i : N) (f : synst)
| EConn (i : N)
| EExec (i : N)
| EDone (i : N)
| EEnd (i : N) (x : result)
| EHorizon.

Definition fate (l : link) : synst :=
  match l with Healthy => SynClean | Holding => SynHeld | Parted => SynDropped end.

Definition synst_eqb (a b : synst) : bool :=
  match a, b with
  | NoSyn, NoSyn | SynClean, SynClean | SynHeld, SynHeld
  | SynReleased, SynReleased | SynDropped, SynDropped => true
  | _, _ => false
  end.

Definition owns (s : st) (c : cfg) (i : N) : bool :=
  match lanes s (q_lane (rq c i)) with LInit o => o =? i | _ => false end.

(** Some other request of the same channel was abandoned by its caller (timeout) at this
    very instant.  (With the `simulation` transport the abandoned request may still sit
    in hyper's dispatch buffer, and the next [send_request] on that connection, issued
    without waiting for readiness, fails with "connection was not ready".) *)
Definition abandoned_now (c : cfg) (s : st) (i : N) : bool :=
  existsb (fun j => negb (j =? i) && (q_lane (rq c j) =? q_lane (rq c i)) &&
                    match cph (reqs s j) with
                    | CDone RTimeout => t_end (reqs s j) =? now s
                    | _ => false
                    end) (ids c).

(** Urgency: the latest time up to which request [i] may stay in its present state. *)
Definition due_ok (c : cfg) (s : st) (t : N) (i : N) : bool :=
  let r := reqs s i in
  match cph r with
  | CActive =>
      match q_tmo (rq c i) with
      | Some d => t <=? t_start r + d + SLACK
      | None => true
      end
      && (if owns s c i
          then match syn r with
               | SynDropped => t <=? t_syn r + SLACK
               | _ => t <=? t_syn r + CONNECT + SLACK
               end
          else true)
  | _ => true
  end.

Definition urgent_ok (c : cfg) (s : st) (t : N) : bool := forallb (due_ok c s t) (ids c).

(** When the owner of a connection set-up leaves, the channel is unconnected again. *)
Definition drop_init (s : st) (c : cfg) (i : N) : st :=
  if owns s c i then set_lane s (q_lane (rq c i)) LNone else s.

Definition env_step (s : st) (e : env) : st :=
  match e with
  | Partition => mk_st (now s) Parted true (lanes s) (reqs s)
  | Hold => mk_st (now s) Holding true (lanes s) (reqs s)
  | Repair => mk_st (now s) Healthy (faulted s) (lanes s) (reqs s)
  | Release => mk_st (now s) Healthy (faulted s) (lanes s) (fun j => r_release (reqs s j))
  end.

(** One observed event at absolute time [t].  [None] = the automaton does not allow it.
    [legacy = true] is the connection set-up as it stood before the repair of
    [LazyClient::get_or_init] (several requests could set up the same channel's
    connection at once; the loser of the race panicked). *)
Definition step (legacy : bool) (c : cfg) (s : st) (te : N * event) : option st :=
  let (t, ev) := te in
  if t <? now s then None else
  if negb (urgent_ok c s t) then None else
  let s := set_now s t in
  match ev with
  | EHorizon => Some s
  | EEnv e => Some (env_step s e)
  | EStart i =>
      let r := reqs s i in
      match cph r with
      | CIdle => if i <? c_n c then Some (set_req s i (r_started r t)) else None
      | _ => None
      end
  | ESyn i f =>
      let r := reqs s i in
      let l := q_lane (rq c i) in
      match cph r, syn r with
      | CActive, NoSyn =>
          let free := match lanes s l with
                      | LNone => true
                      | LInit _ => legacy
                      | LConn => false
                      end in
          if free && synst_eqb f (fate (lnk s))
          then Some (set_lane (set_req s i (r_syn r f t)) l (LInit i))
          else None
      | _, _ => None
      end
  | EConn i =>
      let r := reqs s i in
      let l := q_lane (rq c i) in
      match cph r, syn r with
      | CActive, SynClean | CActive, SynReleased =>
          match lanes s l with
          | LInit o => if (o =? i) || legacy then Some (set_lane s l LConn) else None
          | LConn => if legacy then Some (set_req s i (r_syn r SynLost (t_syn r))) else None
          | LNone => None
          end
      | _, _ => None
      end
  | EExec i =>
      let r := reqs s i in
      let started := match cph r with CActive | CDone RTimeout => true | _ => false end in
      match sph r, lanes s (q_lane (rq c i)) with
      | SNone, LConn =>
          if started && (execs r =? 0) then Some (set_req s i (r_exec r t)) else None
      | _, _ => None
      end
  | EDone i =>
      let r := reqs s i in
      match sph r with
      | SExec =>
          if t_exec r + q_delay (rq c i) <=? t
          then Some (set_req s i (r_done r (handler (payload c i))))
          else None
      | _ => None
      end
  | EEnd i x =>
      let r := reqs s i in
      match cph r with
      | CActive =>
          let ok :=
            match x with
            | ROk v =>
                match lanes s (q_lane (rq c i)), sph r with
                | LConn, SRepl v' => v =? v'
                | _, _ => false
                end
            | RConnErr =>
                if owns s c i
                then match syn r with
                     | SynDropped => true
                     | SynHeld | SynReleased => t_syn r + CONNECT <=? t
                     | SynClean =>
                         (* a SYN sent on a healthy link is answered unless faults came
                            before or after it (turmoil: the listener can sit behind the
                            stale SYNs of abandoned attempts released earlier) *)
                         faulted s && (t_syn r + CONNECT <=? t)
                     | _ => false
                     end
                else match lanes s (q_lane (rq c i)) with
                     | LConn => faulted s || abandoned_now c s i
                     | _ => false
                     end
            | RTimeout =>
                match q_tmo (rq c i) with
                | Some d => (t_start r + d <=? t) && (faulted s || slow c)
                | None => false
                end
            | RPanic => match syn r with SynLost => legacy | _ => false end
            end in
          if ok then Some (set_req (drop_init s c i) i (r_end r x t)) else None
      | _ => None
      end
  end.

(** Replays a trace; [inr k] = the [k]-th event (from 0) is not allowed. *)
Fixpoint run_from (legacy : bool) (c : cfg) (s : st) (tr : list (N * event)) (k : N) : st + N :=
  match tr with
  | [] => inl s
  | te :: tr' =>
      match step legacy c s te with
      | Some s' => run_from legacy c s' tr' (k + 1)
      | None => inr k
      end
  end.

Fixpoint run (legacy : bool) (c : cfg) (s : st) (tr : list (N * event)) : option st :=
  match tr with
  | [] => Some s
  | te :: tr' =>
      match step legacy c s te with
      | Some s' => run legacy c s' tr'
      | None => None
      end
  end.

(** What the client of request [i] has at the end of a run.  A request that is still
    pending is acceptable only without a timeout and only if a fault occurred. *)
Inductive outres := OOk (v : N) | OConnErr | OTimeout | OPanic | OPending.

Definition result_of (c : cfg) (s : st) (i : N) : option outres :=
  match cph (reqs s i) with
  | CDone (ROk v) => Some (OOk v)
  | CDone RConnErr => Some OConnErr
  | CDone RTimeout => Some OTimeout
  | CDone RPanic => Some OPanic
  | CActive =>
      match q_tmo (rq c i) with
      | None => if faulted s then Some OPending else None
      | Some _ => None
      end
  | CIdle => None
  end.

(** The canonical outcome of a trace: per request its result and execution count, or
    [inr k] where [k] is the rejected event ([k] = length of the trace: the final state
    is not an acceptable end, e.g. an unexcused pending request). *)
Definition verdict (legacy : bool) (c : cfg) (tr : list (N * event)) : list (outres * N) + N :=
  match run_from legacy c st0 tr 0 with
  | inr k => inr k
  | inl s =>
      let rs := map (fun i => (result_of c s i, execs (reqs s i))) (ids c) in
      if forallb (fun p => match fst p with Some _ => true | None => false end) rs
      then inl (map (fun p => (match fst p with Some o => o | None => OPending end, snd p)) rs)
      else inr (N.of_nat (length tr))
  end.
