(** * RpcLifeProofs: invariants of the request life-cycle automaton of [RpcLife.v]

    Everything here is about the automaton ([step false], the post-repair connection
    set-up): an invariant [Inv] holds in the initial state and is preserved by every
    allowed event, for every configuration and every event sequence (no bound on the
    number of requests, events or on time).  The proofs are short because the automaton
    has no retry transition and stores the reply in the request it belongs to; they say
    nothing about hyper, tokio or TCP. *)

From Coq Require Import NArith List Bool Lia ZifyBool ZifyN ZifyNat.
From DC Require Import RpcLife.
Import ListNotations.
Open Scope N_scope.

Arguments handler : simpl never.
Arguments payload : simpl never.
Arguments N.add : simpl never.
Arguments N.leb : simpl never.
Arguments N.ltb : simpl never.
Arguments N.eqb : simpl never.

Lemma ids_in c i : i < c_n c -> In i (ids c).
Proof.
  unfold c_n, ids. intros H. apply in_map_iff. exists (N.to_nat i). split.
  - apply N2Nat.id.
  - apply in_seq. lia.
Qed.

(** Per-request invariant at time [t]. *)
Definition RI (c : cfg) (t : N) (i : N) (r : req) : Prop :=
  (cph r <> CIdle -> i < c_n c) /\
  (sph r = SNone -> execs r = 0) /\
  (sph r <> SNone -> execs r = 1) /\
  (forall v, sph r = SRepl v -> v = handler (payload c i)) /\
  (forall v, cph r = CDone (ROk v) -> v = handler (payload c i) /\ execs r = 1) /\
  (forall d, q_tmo (rq c i) = Some d ->
     (cph r = CActive -> t <= t_start r + d + SLACK) /\
     (forall x, cph r = CDone x -> t_end r <= t_start r + d + SLACK)) /\
  cph r <> CDone RPanic.

Ltac ri_split := unfold RI; repeat match goal with |- _ /\ _ => split end.

(** A channel whose connection is being set up has a live owner on that channel, and
    the set-up is within the connect bound. *)
Definition LI (c : cfg) (s : st) : Prop :=
  forall l o, lanes s l = LInit o ->
    cph (reqs s o) = CActive /\ q_lane (rq c o) = l /\
    now s <= t_syn (reqs s o) + CONNECT + SLACK.

Definition Inv (c : cfg) (s : st) : Prop :=
  (forall i, RI c (now s) i (reqs s i)) /\ LI c s.

Lemma inv_st0 c : Inv c st0.
Proof.
  split.
  - intro i. unfold RI; cbn. repeat split; intros; try congruence; auto.
  - intros l o H. cbn in H. discriminate.
Qed.

(** Time may advance exactly as far as urgency allows. *)
Lemma tick_inv c s t :
  Inv c s -> urgent_ok c s t = true -> Inv c (set_now s t).
Proof.
  intros [HR HL] HU. unfold urgent_ok in HU. rewrite forallb_forall in HU. split.
  - intro i. destruct (HR i) as (A & B & C & D & E & F & G).
    unfold RI; cbn [set_now reqs now]. ri_split; auto.
    intros d Hd. split.
    + intros Hact. assert (Hi : i < c_n c) by (apply A; congruence).
      specialize (HU i (ids_in c i Hi)). unfold due_ok in HU. rewrite Hact, Hd in HU.
      apply andb_prop in HU. destruct HU as [HU _]. lia.
    + intros x Hx. destruct (F d Hd) as [_ F2]. eauto.
  - intros l o Hl. cbn [set_now lanes] in Hl. destruct (HL l o Hl) as (Ha & Hq & _).
    cbn [set_now reqs now]. repeat split; auto.
    destruct (HR o) as (A & _). assert (Hi : o < c_n c) by (apply A; congruence).
    specialize (HU o (ids_in c o Hi)). unfold due_ok, owns in HU. rewrite Ha, Hq, Hl in HU.
    rewrite N.eqb_refl in HU. apply andb_prop in HU. destruct HU as [_ HU].
    unfold CONNECT, SLACK in *. destruct (syn (reqs s o)); lia.
Qed.

Lemma ri_set_req c s i r' :
  (forall j, RI c (now s) j (reqs s j)) -> RI c (now s) i r' ->
  forall j, RI c (now (set_req s i r')) j (reqs (set_req s i r') j).
Proof.
  intros HR Hr j. cbn [set_req now reqs]. unfold upd.
  destruct (j =? i) eqn:E; [apply N.eqb_eq in E; subst; exact Hr | apply HR].
Qed.

Lemma li_set_req c s i r' :
  LI c s ->
  (forall l, lanes s l = LInit i ->
     cph r' = CActive /\ now s <= t_syn r' + CONNECT + SLACK) ->
  LI c (set_req s i r').
Proof.
  intros HL H l o Hl. cbn [set_req lanes] in Hl. cbn [set_req now reqs]. unfold upd.
  destruct (HL l o Hl) as (Ha & Hq & Hb).
  destruct (o =? i) eqn:E.
  - apply N.eqb_eq in E; subst o. destruct (H l Hl). auto.
  - auto.
Qed.

Lemma li_set_lane c s l v :
  LI c s ->
  match v with
  | LInit o => cph (reqs s o) = CActive /\ q_lane (rq c o) = l /\
               now s <= t_syn (reqs s o) + CONNECT + SLACK
  | _ => True
  end ->
  LI c (set_lane s l v).
Proof.
  intros HL H l' o Hl. cbn [set_lane lanes] in Hl. cbn [set_lane now reqs]. unfold upd in Hl.
  destruct (l' =? l) eqn:E.
  - apply N.eqb_eq in E; subst l' v. exact H.
  - apply HL; auto.
Qed.

Lemma r_release_cph r : cph (r_release r) = cph r.
Proof. unfold r_release; destruct (syn r); reflexivity. Qed.
Lemma r_release_fields r :
  t_start (r_release r) = t_start r /\ t_syn (r_release r) = t_syn r /\
  t_end (r_release r) = t_end r /\ execs (r_release r) = execs r /\ sph (r_release r) = sph r.
Proof. unfold r_release; destruct (syn r); repeat split; reflexivity. Qed.

Lemma env_inv c s e : Inv c s -> Inv c (env_step s e).
Proof.
  intros [HR HL]. destruct e; cbn; try (split; [exact HR | exact HL]).
  split.
  - intro i. cbn [now reqs]. specialize (HR i). unfold RI in *.
    rewrite r_release_cph. destruct (r_release_fields (reqs s i)) as (-> & _ & -> & -> & ->).
    exact HR.
  - intros l o Hl. cbn [lanes] in Hl. cbn [now reqs]. rewrite r_release_cph.
    destruct (r_release_fields (reqs s o)) as (_ & -> & _). apply HL; auto.
Qed.

Lemma start_inv c s i :
  Inv c s -> cph (reqs s i) = CIdle -> i < c_n c ->
  Inv c (set_req s i (r_started (reqs s i) (now s))).
Proof.
  intros [HR HL] Hc Hi. split.
  - apply ri_set_req; auto. destruct (HR i) as (A & B & C & D & E & F & G).
    ri_split; cbn.
    + intros _. exact Hi.
    + exact B.
    + exact C.
    + exact D.
    + intros v Hv. discriminate Hv.
    + intros d Hd. split; [intros _; unfold SLACK; lia | intros x Hx; discriminate Hx].
    + discriminate.
  - apply li_set_req; auto. intros l Hl. destruct (HL l i Hl) as (Ha & _). congruence.
Qed.

Lemma syn_inv c s i f :
  Inv c s -> cph (reqs s i) = CActive -> lanes s (q_lane (rq c i)) = LNone ->
  Inv c (set_lane (set_req s i (r_syn (reqs s i) f (now s))) (q_lane (rq c i)) (LInit i)).
Proof.
  intros [HR HL] Hc Hl. split.
  - cbn [set_lane now reqs]. apply ri_set_req; auto.
    specialize (HR i). unfold RI in *. cbn. exact HR.
  - apply li_set_lane.
    + apply li_set_req; auto. intros l Hl'. destruct (HL l i Hl') as (_ & Hq & _). congruence.
    + cbn [set_req now reqs]. unfold upd. rewrite N.eqb_refl. cbn. repeat split; auto.
      unfold CONNECT, SLACK. lia.
Qed.

Lemma exec_inv c s i :
  Inv c s -> sph (reqs s i) = SNone -> execs (reqs s i) = 0 ->
  Inv c (set_req s i (r_exec (reqs s i) (now s))).
Proof.
  intros [HR HL] Hs He. split.
  - apply ri_set_req; auto. destruct (HR i) as (A & B & C & D & E & F & G).
    ri_split; cbn.
    + exact A.
    + intros Hx; discriminate Hx.
    + intros _. lia.
    + intros v Hv; discriminate Hv.
    + intros v Hv. destruct (E v Hv) as [_ E2]. lia.
    + exact F.
    + exact G.
  - apply li_set_req; auto. intros l Hl. destruct (HL l i Hl) as (Ha & _ & Hb). cbn. auto.
Qed.

Lemma done_inv c s i :
  Inv c s -> sph (reqs s i) = SExec ->
  Inv c (set_req s i (r_done (reqs s i) (handler (payload c i)))).
Proof.
  intros [HR HL] Hs. split.
  - apply ri_set_req; auto. destruct (HR i) as (A & B & C & D & E & F & G).
    ri_split; cbn.
    + exact A.
    + intros Hx; discriminate Hx.
    + intros _. apply C. rewrite Hs. discriminate.
    + intros v Hv. congruence.
    + exact E.
    + exact F.
    + exact G.
  - apply li_set_req; auto. intros l Hl. destruct (HL l i Hl) as (Ha & _ & Hb). cbn. auto.
Qed.

Lemma drop_init_reqs s c i : reqs (drop_init s c i) = reqs s /\ now (drop_init s c i) = now s.
Proof. unfold drop_init. destruct (owns s c i); split; reflexivity. Qed.

Lemma end_inv c s i x :
  Inv c s -> cph (reqs s i) = CActive ->
  (forall v, x = ROk v -> sph (reqs s i) = SRepl v) ->
  x <> RPanic ->
  Inv c (set_req (drop_init s c i) i (r_end (reqs s i) x (now s))).
Proof.
  intros [HR HL] Hc Hok Hnp.
  destruct (drop_init_reqs s c i) as [Er En].
  split.
  - cbn [set_req now reqs]. rewrite Er, En. intro j. unfold upd.
    destruct (j =? i) eqn:E; [apply N.eqb_eq in E; subst | apply HR].
    destruct (HR i) as (A & B & C & D & E & F & G).
    ri_split; cbn.
    + intros _. apply A. congruence.
    + exact B.
    + exact C.
    + exact D.
    + intros v Hv. inversion Hv; subst x. split.
      * apply D. apply Hok. reflexivity.
      * apply C. rewrite (Hok v eq_refl). discriminate.
    + intros d Hd. split; [intros Hx; discriminate Hx|].
      intros x0 _. destruct (F d Hd) as [F1 _]. apply F1. exact Hc.
    + intros Hx. inversion Hx. congruence.
  - intros l o Hl. cbn [set_req lanes] in Hl. cbn [set_req now reqs]. rewrite Er, En.
    unfold upd. unfold drop_init in Hl.
    destruct (owns s c i) eqn:Eo.
    + cbn [set_lane lanes] in Hl. unfold upd in Hl.
      destruct (l =? q_lane (rq c i)) eqn:El; [discriminate|].
      destruct (HL l o Hl) as (Ha & Hq & Hb).
      destruct (o =? i) eqn:E; [|auto].
      apply N.eqb_eq in E; subst. rewrite N.eqb_refl in El. discriminate.
    + destruct (HL l o Hl) as (Ha & Hq & Hb).
      destruct (o =? i) eqn:E; [|auto].
      apply N.eqb_eq in E; subst. unfold owns in Eo. rewrite Hl, N.eqb_refl in Eo. discriminate.
Qed.

(** The invariant is preserved by every allowed event. *)
Lemma step_inv c s te s' :
  Inv c s -> step false c s te = Some s' -> Inv c s'.
Proof.
  intros HI Hs. destruct te as [t ev]. unfold step in Hs.
  destruct (t <? now s) eqn:Et; [discriminate|].
  destruct (urgent_ok c s t) eqn:Eu; cbn [negb] in Hs; [|discriminate].
  pose proof (tick_inv c s t HI Eu) as HI1.
  remember (set_now s t) as s1 eqn:Hs1.
  assert (Hn : now s1 = t) by (subst s1; reflexivity).
  clear Hs1 HI Et Eu.
  destruct ev as [e | i | i f | i | i | i | i x |].
  - inversion Hs; subst. apply env_inv; auto.
  - destruct (cph (reqs s1 i)) eqn:Ec; try discriminate.
    destruct (i <? c_n c) eqn:Ei; [|discriminate]. inversion Hs; subst.
    apply start_inv; auto. lia.
  - destruct (cph (reqs s1 i)) eqn:Ec; try discriminate.
    destruct (syn (reqs s1 i)) eqn:Ey; try discriminate.
    destruct (lanes s1 (q_lane (rq c i))) eqn:El; cbn [andb] in Hs; try discriminate.
    destruct (synst_eqb f (fate (lnk s1))); [|discriminate]. inversion Hs; subst.
    apply syn_inv; auto.
  - destruct (cph (reqs s1 i)) eqn:Ec; try discriminate.
    destruct (syn (reqs s1 i)) eqn:Ey; try discriminate;
      (destruct (lanes s1 (q_lane (rq c i))) eqn:El; try discriminate;
       rewrite orb_false_r in Hs;
       destruct (owner =? i); [|discriminate]; inversion Hs; subst;
       destruct HI1 as [HR HL]; split; [exact HR | apply li_set_lane; auto]).
  - destruct (sph (reqs s1 i)) eqn:Ep; try discriminate.
    destruct (lanes s1 (q_lane (rq c i))) eqn:El; try discriminate.
    match type of Hs with (if ?a && ?b then _ else _) = _ =>
      destruct a; cbn [andb] in Hs; [|discriminate]; destruct b eqn:Ee; [|discriminate] end.
    inversion Hs; subst. apply exec_inv; auto. lia.
  - destruct (sph (reqs s1 i)) eqn:Ep; try discriminate.
    match type of Hs with (if ?a then _ else _) = _ => destruct a; [|discriminate] end.
    inversion Hs; subst. apply done_inv; auto.
  - destruct (cph (reqs s1 i)) eqn:Ec; try discriminate.
    match type of Hs with (if ?a then _ else _) = _ => destruct a eqn:Eok; [|discriminate] end.
    inversion Hs; subst. apply end_inv; auto.
    + intros v ->. destruct (lanes s1 (q_lane (rq c i))); try discriminate.
      destruct (sph (reqs s1 i)); try discriminate. apply N.eqb_eq in Eok. congruence.
    + intros ->. destruct (syn (reqs s1 i)); discriminate.
  - inversion Hs; subst. exact HI1.
Qed.

Lemma run_inv c tr : forall s s', Inv c s -> run false c s tr = Some s' -> Inv c s'.
Proof.
  induction tr as [|te tr IH]; intros s s' HI Hr; cbn in Hr.
  - inversion Hr; subst; auto.
  - destruct (step false c s te) eqn:Es; [|discriminate].
    eapply IH; [eapply step_inv; eauto | exact Hr].
Qed.

Lemma reachable_inv c tr s : run false c st0 tr = Some s -> Inv c s.
Proof. apply run_inv, inv_st0. Qed.

(** ** The statements used by [Properties/C14.v] *)

Lemma at_most_once c tr s i :
  run false c st0 tr = Some s -> execs (reqs s i) <= 1.
Proof.
  intros H. destruct (reachable_inv _ _ _ H) as [HR _].
  destruct (HR i) as (_ & B & C & _).
  destruct (sph (reqs s i)) eqn:E.
  - rewrite B; auto. lia.
  - rewrite C; [lia | congruence].
  - rewrite C; [lia | congruence].
Qed.

Lemma ok_is_own_reply c tr s i v :
  run false c st0 tr = Some s -> cph (reqs s i) = CDone (ROk v) ->
  v = handler (payload c i) /\ execs (reqs s i) = 1 /\ i < c_n c.
Proof.
  intros H Hc. destruct (reachable_inv _ _ _ H) as [HR _].
  destruct (HR i) as (A & _ & _ & _ & E & _).
  destruct (E v Hc). repeat split; auto. apply A. congruence.
Qed.

Lemma no_swap c tr s i j v :
  run false c st0 tr = Some s -> cph (reqs s i) = CDone (ROk v) ->
  handler (payload c j) <> handler (payload c i) -> v <> handler (payload c j).
Proof.
  intros H Hc Hne. destruct (ok_is_own_reply _ _ _ _ _ H Hc) as (-> & _). congruence.
Qed.

Lemma deadline c tr s i d :
  run false c st0 tr = Some s -> q_tmo (rq c i) = Some d ->
  (cph (reqs s i) = CActive -> now s <= t_start (reqs s i) + d + SLACK) /\
  (forall x, cph (reqs s i) = CDone x -> t_end (reqs s i) <= t_start (reqs s i) + d + SLACK).
Proof.
  intros H Hd. destruct (reachable_inv _ _ _ H) as [HR _].
  destruct (HR i) as (_ & _ & _ & _ & _ & F & _). exact (F d Hd).
Qed.

Lemma connect_bounded c tr s l o :
  run false c st0 tr = Some s -> lanes s l = LInit o ->
  cph (reqs s o) = CActive /\ q_lane (rq c o) = l /\
  now s <= t_syn (reqs s o) + CONNECT + SLACK.
Proof. intros H Hl. destruct (reachable_inv _ _ _ H) as [_ HL]. exact (HL l o Hl). Qed.

Lemma never_panics c tr s i :
  run false c st0 tr = Some s -> cph (reqs s i) <> CDone RPanic.
Proof.
  intros H. destruct (reachable_inv _ _ _ H) as [HR _].
  destruct (HR i) as (_ & _ & _ & _ & _ & _ & G). exact G.
Qed.

(** A request that has ended keeps its result: there is no second answer. *)
Lemma step_final lg c s te s' i x :
  step lg c s te = Some s' -> cph (reqs s i) = CDone x -> cph (reqs s' i) = CDone x.
Proof.
  intros Hs Hc. destruct te as [t ev]. unfold step in Hs.
  destruct (t <? now s); [discriminate|].
  destruct (urgent_ok c s t); cbn [negb] in Hs; [|discriminate].
  remember (set_now s t) as s1 eqn:Hs1.
  assert (Hc1 : cph (reqs s1 i) = CDone x) by (subst s1; exact Hc).
  clear Hs1 Hc.
  assert (Hupd : forall k r', cph r' = cph (reqs s1 k) ->
            cph (upd (reqs s1) k r' i) = CDone x).
  { intros k r' Hr. unfold upd. destruct (i =? k) eqn:E; [apply N.eqb_eq in E; subst; congruence | exact Hc1]. }
  assert (Hne : forall k r', cph (reqs s1 k) <> CDone x ->
            cph (upd (reqs s1) k r' i) = CDone x).
  { intros k r' Hr. unfold upd. destruct (i =? k) eqn:E; [apply N.eqb_eq in E; subst; congruence | exact Hc1]. }
  destruct ev as [e | k | k f | k | k | k | k y |].
  - inversion Hs; subst. destruct e; cbn; auto. rewrite r_release_cph. exact Hc1.
  - destruct (cph (reqs s1 k)) eqn:Ec; try discriminate.
    destruct (k <? c_n c); [|discriminate]. inversion Hs; subst. cbn. apply Hne. congruence.
  - destruct (cph (reqs s1 k)) eqn:Ec; try discriminate.
    destruct (syn (reqs s1 k)); try discriminate.
    match type of Hs with (if ?a then _ else _) = _ => destruct a; [|discriminate] end.
    inversion Hs; subst. cbn. apply Hne. congruence.
  - destruct (cph (reqs s1 k)) eqn:Ec; try discriminate.
    destruct (syn (reqs s1 k)); try discriminate;
      (destruct (lanes s1 (q_lane (rq c k))); try discriminate;
       match type of Hs with (if ?a then _ else _) = _ => destruct a; [|discriminate] end;
       inversion Hs; subst; cbn; auto; apply Hne; congruence).
  - destruct (sph (reqs s1 k)); try discriminate.
    destruct (lanes s1 (q_lane (rq c k))); try discriminate.
    match type of Hs with (if ?a then _ else _) = _ => destruct a; [|discriminate] end.
    inversion Hs; subst. cbn. apply Hupd. reflexivity.
  - destruct (sph (reqs s1 k)); try discriminate.
    match type of Hs with (if ?a then _ else _) = _ => destruct a; [|discriminate] end.
    inversion Hs; subst. cbn. apply Hupd. reflexivity.
  - destruct (cph (reqs s1 k)) eqn:Ec; try discriminate.
    match type of Hs with (if ?a then _ else _) = _ => destruct a; [|discriminate] end.
    inversion Hs; subst. cbn. destruct (drop_init_reqs s1 c k) as [-> _]. apply Hne. congruence.
  - inversion Hs; subst. exact Hc1.
Qed.

Lemma run_final lg c tr : forall s s' i x,
  run lg c s tr = Some s' -> cph (reqs s i) = CDone x -> cph (reqs s' i) = CDone x.
Proof.
  induction tr as [|te tr IH]; intros s s' i x Hr Hc; cbn in Hr.
  - inversion Hr; subst; auto.
  - destruct (step lg c s te) eqn:Es; [|discriminate].
    eapply IH; [exact Hr | eapply step_final; eauto].
Qed.

Lemma run_app lg c tr1 : forall tr2 s s2,
  run lg c s (tr1 ++ tr2) = Some s2 ->
  exists s1, run lg c s tr1 = Some s1 /\ run lg c s1 tr2 = Some s2.
Proof.
  induction tr1 as [|te tr1 IH]; intros tr2 s s2 H; cbn in *.
  - eauto.
  - destruct (step lg c s te); [|discriminate]. apply IH; auto.
Qed.

Lemma result_is_final c tr1 tr2 s1 s2 i x :
  run false c st0 tr1 = Some s1 -> run false c st0 (tr1 ++ tr2) = Some s2 ->
  cph (reqs s1 i) = CDone x -> cph (reqs s2 i) = CDone x.
Proof.
  intros H1 H2 Hc. destruct (run_app _ _ _ _ _ _ H2) as (s1' & H1' & H2').
  rewrite H1 in H1'. inversion H1'; subst. eapply run_final; eauto.
Qed.

(** Without a timeout a request may stay pending for ever once the link is held:
    for every time [t] there is an accepted run that reaches [t] with the request still
    pending, and [verdict] reports it as such. *)
Definition one_req : cfg := mk_cfg 1 [mk_rcfg 0 None 0].
Definition pend_trace (t : N) : list (N * event) :=
  [(0, EStart 0); (0, ESyn 0 SynClean); (0, EConn 0); (0, EEnv Hold); (t, EHorizon)].

Lemma may_pend t :
  exists s, run false one_req st0 (pend_trace t) = Some s /\ now s = t /\
            cph (reqs s 0) = CActive /\ q_tmo (rq one_req 0) = None /\
            verdict false one_req (pend_trace t) = inl [(OPending, 0)].
Proof.
  destruct t as [|p].
  - eexists. vm_compute. repeat split; reflexivity.
  - eexists. unfold pend_trace, verdict. cbn. repeat split; reflexivity.
Qed.

(** The connection set-up as it stood before the repair: two requests that start on a
    fresh channel at the same time both set up a connection and the second to finish
    panics ([OnceCell::set(..).unwrap()]).  This is the trace hx-sim observed. *)
Definition two_req : cfg := mk_cfg 2054 [mk_rcfg 0 None 0; mk_rcfg 0 None 0].
Definition race_trace : list (N * event) :=
  [(5000, EStart 0); (5000, ESyn 0 SynClean); (5000, EStart 1); (5000, ESyn 1 SynClean);
   (10000, EConn 0); (10000, EConn 1); (10000, EEnd 1 RPanic)].

Lemma legacy_race_panics :
  (exists s, run true two_req st0 race_trace = Some s /\ cph (reqs s 1) = CDone RPanic) /\
  run false two_req st0 race_trace = None.
Proof. split; [eexists; vm_compute; split; reflexivity | vm_compute; reflexivity]. Qed.
