(** * C12 — RPC delivers exactly the bytes sent; damaged or short frames are rejected

    This file contains only the property theorems (each closed by [exact] of a lemma
    proved in [FrameProofs.v]) and non-vacuity examples.

    A byte is an [N] below 256 ([wf_bytes]); [fixed] is [size_of::<T::Archived>()];
    rkyv's serializer/view pair is a [codec] about which only the round-trip law
    [codec_ok] is assumed. *)

From Coq Require Import NArith PeanoNat List Bool.
From Coq.Strings Require Import Byte.
From DC Require Import Crc Frame FrameProofs Scratch ScratchProofs.
Import ListNotations.
Open Scope N_scope.

(** The modelled checksum is CRC-32/ISO-HDLC (check value of "123456789"). *)
Theorem C12_crc32_check_value :
  crc32 [49; 50; 51; 52; 53; 54; 55; 56; 57] = 3421780262.
Proof. exact crc32_check_value. Qed.

(** (1) A frame built by [to_view_bytes] is accepted and yields exactly its body. *)
Theorem C12_frame_accepted :
  forall fixed b, wf_bytes b -> (fixed <= length b)%nat -> view_using fixed (frame b) = Ok b.
Proof. exact using_frame. Qed.

(** The body of a request or reply may arrive in any number of pieces ([utils::to_aligned]
    reassembles them: the first, the second, then every further piece until the stream ends).
    [to_aligned] is transcribed with the capacity hint it computes (first + second + the
    stream's lower size bound) - which the code uses for the allocation only.  Whatever the
    pieces and whatever the hint, the reassembled buffer is their concatenation, so a frame
    delivered in pieces is accepted exactly like the frame itself. *)
Definition to_aligned (hint : nat) (chunks : list (list N)) : list N :=
  match chunks with
  | [] => []
  | [c1] => c1
  | c1 :: c2 :: rest => (c1 ++ c2) ++ concat rest     (* capacity c1+c2+hint: allocation only *)
  end.

Theorem C12_pieces_reassemble_to_the_frame :
  forall hint chunks, to_aligned hint chunks = concat chunks.
Proof.
  intros hint [|c1 [|c2 rest]]; cbn [to_aligned concat]; [reflexivity|now rewrite app_nil_r|now rewrite app_assoc].
Qed.

Theorem C12_frame_in_pieces_is_accepted :
  forall fixed b hint chunks, wf_bytes b -> (fixed <= length b)%nat ->
    concat chunks = frame b -> view_using fixed (to_aligned hint chunks) = Ok b.
Proof.
  intros fixed b hint chunks Hw Hl Hc. rewrite C12_pieces_reassemble_to_the_frame, Hc. now apply using_frame.
Qed.

(** Reading stops once the hinted capacity is reached (seeded change C12/B): a body of three
    pieces streamed without a length (hint 0) loses its tail. *)
Fixpoint take_until (cap : nat) (acc : list N) (rest : list (list N)) : list N :=
  match rest with
  | [] => acc
  | c :: r => if (length acc <? cap)%nat then take_until cap (acc ++ c) r else acc
  end.

Definition to_aligned_capped (hint : nat) (chunks : list (list N)) : list N :=
  match chunks with
  | [] => []
  | [c1] => c1
  | c1 :: c2 :: rest => take_until (length c1 + length c2 + hint) (c1 ++ c2) rest
  end.

Theorem C12_capped_reassembly_refuted :
  to_aligned_capped 0 [[1]; [2]; [3]] = [1; 2] /\ to_aligned 0 [[1]; [2]; [3]] = [1; 2; 3].
Proof. vm_compute. split; reflexivity. Qed.

(** (1) The receiver of an encoded value observes an equal value. *)
Theorem C12_message_delivered :
  forall (A : Type) (c : codec A) (a : A), codec_ok c -> decode c (encode c a) = Ok a.
Proof. exact (@decode_encode). Qed.

(** (1) One exchange: the handler runs exactly once, on a value equal to the one the
    client sent, and the client observes exactly what the handler returned — its
    reply, or its error status (code and message). *)
Theorem C12_rpc_roundtrip :
  forall (msg reply status : Type) (cm : codec msg) (cr : codec reply) (cs : codec status)
         (invalid : status) (handler : msg -> reply + status),
    codec_ok cm -> codec_ok cr -> codec_ok cs ->
    forall m, call cm cr cs invalid handler m = ([m], handler m).
Proof. exact (@call_roundtrip). Qed.

Theorem C12_handler_error_reaches_client :
  forall (msg reply : Type) (cm : codec msg) (cr : codec reply) (cs : codec status_t)
         (invalid : status_t) (handler : msg -> reply + status_t),
    codec_ok cm -> codec_ok cr -> codec_ok cs ->
    forall m code message,
      handler m = inr {| st_code := code; st_message := message |} ->
      snd (call cm cr cs invalid handler m) = inr {| st_code := code; st_message := message |}.
Proof.
  exact (fun msg reply cm cr cs invalid handler Hm Hr Hs m code message =>
           @call_error msg reply status_t cm cr cs invalid handler Hm Hr Hs m
                       {| st_code := code; st_message := message |}).
Qed.

(** A trailer that is not the checksum of the bytes before it is refused. *)
Theorem C12_mismatched_trailer_refused :
  forall fixed body trailer,
    length trailer = 4%nat -> of_le32 trailer <> crc32 body ->
    view_using fixed (body ++ trailer) = Invalid.
Proof. exact using_mismatch. Qed.

(** (2) Every single-bit corruption of a frame of any length is refused. *)
Theorem C12_single_bit_corruption_refused :
  forall fixed b i,
    wf_bytes b -> i < 8 * N.of_nat (length b + 4) ->
    view_using fixed (flip i (frame b)) = Invalid.
Proof. exact using_flip_frame. Qed.

(** More generally, any change confined to one byte of the body is refused. *)
Theorem C12_one_byte_corruption_of_body_refused :
  forall fixed p x y s,
    wf_bytes p -> wf_bytes s -> is_byte x -> is_byte y -> x <> y ->
    view_using fixed ((p ++ y :: s) ++ le32 (crc32 (p ++ x :: s))) = Invalid.
Proof. exact using_body_byte_changed. Qed.

(** (3) Everything shorter than the fixed part plus the trailer is refused; in
    particular every truncation of a frame below that size, and the four zero bytes. *)
Theorem C12_short_frame_refused :
  forall fixed bs, (length bs < fixed + 4)%nat -> view_using fixed bs = Invalid.
Proof. exact using_short. Qed.

Theorem C12_four_zero_bytes_refused :
  forall fixed, (0 < fixed)%nat -> view_using fixed [0; 0; 0; 0] = Invalid.
Proof. exact using_four_zeros. Qed.

(** Whatever the bytes, the cast never reads outside the buffer. *)
Theorem C12_never_out_of_bounds :
  forall fixed bs, view_using fixed bs <> OutOfBounds.
Proof. exact using_in_bounds. Qed.

(** A buffer is accepted only if it is a body of at least [fixed] bytes followed by
    the four bytes of its checksum. *)
Theorem C12_accepted_only_if_checked :
  forall fixed bs body,
    view_using fixed bs = Ok body ->
    exists trailer, bs = body ++ trailer /\ length trailer = 4%nat /\
                    of_le32 trailer = crc32 body /\ (fixed <= length body)%nat.
Proof. exact using_ok_inv. Qed.

(** No handler runs on a refused frame, and the client is told [Status::invalid()]. *)
Theorem C12_refused_frame_runs_no_handler :
  forall (msg reply status : Type) (cm : codec msg) (cr : codec reply) (cs : codec status)
         (invalid : status) (handler : msg -> reply + status),
    codec_ok cs ->
    forall req,
      view_using (fixed cm) req = Invalid ->
      fst (server cm cr cs invalid handler req) = [] /\
      client cr cs invalid (snd (server cm cr cs invalid handler req)) = inr invalid.
Proof. exact (@server_refuses). Qed.

Theorem C12_handler_runs_only_on_checked_frames :
  forall (msg reply status : Type) (cm : codec msg) (cr : codec reply) (cs : codec status)
         (invalid : status) (handler : msg -> reply + status) req m,
    In m (fst (server cm cr cs invalid handler req)) ->
    exists body, view_using (fixed cm) req = Ok body /\ view cm body = Some m.
Proof. exact (@server_runs_only_on_valid). Qed.

(** (4) The code as it stood before the repair of D4 cast the four zero bytes (the
    checksum of the empty body) as any archived type of non-zero size. *)
Theorem C12_legacy_using_refuted :
  exists fixed bs, (length bs < fixed + 4)%nat /\ legacy_using fixed bs = OutOfBounds.
Proof. exact legacy_using_refuted. Qed.

Theorem C12_legacy_using_four_zero_bytes :
  forall fixed, (0 < fixed)%nat -> legacy_using fixed [0; 0; 0; 0] = OutOfBounds.
Proof. exact legacy_using_four_zeros. Qed.

(** ** Non-vacuity: a concrete codec meets [codec_ok], and the theorems' hypotheses
    hold for concrete non-trivial frames. *)

Example C12_nonvacuous_codec : codec_ok ex_codec.
Proof. exact ex_codec_ok. Qed.

Example C12_nonvacuous_status_codec : codec_ok ex_status_codec.
Proof. exact ex_status_codec_ok. Qed.

Example C12_nonvacuous_frames :
  let b := [1; 2; 3; 250; 0; 255] in
  wf_bytesb b = true /\
  frame b = b ++ [3; 151; 186; 135] /\
  view_using 6 (frame b) = Ok b /\
  view_using 6 (flip 11 (frame b)) = Invalid /\
  view_using 6 (flip 79 (frame b)) = Invalid /\
  view_using 7 (frame b) = Invalid /\
  view_using 1 [0; 0; 0; 0] = Invalid /\
  legacy_using 1 [0; 0; 0; 0] = OutOfBounds /\
  view_using 0 [0; 0; 0; 0] = Ok [] /\
  decode ex_codec (encode ex_codec (true, false)) = Ok (true, false).
Proof. vm_compute. repeat split; reflexivity. Qed.

Example C12_nonvacuous_call :
  let oh := {| st_code := InternalError; st_message := [x6f; x68]%byte |} in
  let inv := {| st_code := InvalidPayload; st_message := [x49]%byte |} in
  let handler := fun p : bool * bool => if fst p then inl (snd p, fst p) else inr oh in
  call ex_codec ex_codec ex_status_codec inv handler (true, false)
    = ([(true, false)], inl (false, true)) /\
  call ex_codec ex_codec ex_status_codec inv handler (false, true)
    = ([(false, true)], inr oh) /\
  server ex_codec ex_codec ex_status_codec inv handler [0; 0; 0; 0]
    = ([], {| http_ok := false; resp_body := encode ex_status_codec inv |}) /\
  model_echo 2 (frame [7; 9]) = ([[7; 9]], inl [7; 9]) /\
  model_echo 3 (frame [7; 9]) = ([], inr raw_invalid) /\
  model_status 1 [111; 104] = inr (1, [111; 104]).
Proof. vm_compute. repeat split; reflexivity. Qed.

(** ** The serializer's scratch space ([LazyScratch], [Scratch.v])

    "A frame built by [to_view_bytes] is accepted" presupposes that [to_view_bytes] builds a
    frame for every message value.  The one part of it that is datacake's own logic is the
    three-tier scratch space the serializer obtains its working blocks from.  The serializer
    obtains and releases blocks in nested order, never an empty one: for every such forest of
    sessions, of any depth, width and block sizes, on a fresh scratch space no request and no
    release is refused, nothing panics (a release is never offered to a buffer whose pointer
    was not yet computed) and nothing stays allocated. *)
Theorem C12_scratch_never_refuses :
  forall forest : list session,
    forallb wf_session forest = true ->
    exists s', run_sessions lazy_pop forest init = ROk s' /\ allocs s' = [] /\ Inv s'.
Proof. exact forest_never_refused. Qed.

(** The same for one more session on a scratch space in any state the invariant holds in. *)
Theorem C12_scratch_session_from_any_state :
  forall (t : session) (s : scratch),
    wf_session t = true -> Inv s ->
    exists s', run_session lazy_pop t s = ROk s' /\ allocs s' = allocs s /\ Inv s'.
Proof. exact session_never_refused. Qed.

(** A release that picks the tier by the block's size refuses a well-formed session (the
    block went to the second tier because the first was partly used, not because it was big). *)
Theorem C12_scratch_release_by_size_refuted :
  wf_session by_size_witness = true /\
  (exists s', run_session lazy_pop_by_size by_size_witness init = RErr s') /\
  (exists s', run_session lazy_pop by_size_witness init = ROk s').
Proof. exact pop_by_size_refuses. Qed.

Example C12_nonvacuous_scratch :
  let t := Node 8 8 [Node 1000 8 []; Node 1024 8 [Node 16384 16 [Node 3 1 []]]; Node 5 1 []] in
  wf_session t = true /\
  fst (run_trace [OPush 8 8; OPush 1024 8; OPush 16384 16; OPop 2 16384 16; OPop 1 1024 8; OPop 0 8 8] init [])
    = [SPushed (HStack 0); SPushed (HHeap 0); SPushed (HAlloc 0); SPopOk; SPopOk; SPopOk] /\
  fst (run_trace [OPush 8 8; OPush 16 8; OPop 0 8 8; OPop 1 16 8] init [])
    = [SPushed (HStack 0); SPushed (HStack 8); SPopOk; SPopPanic].
Proof. vm_compute. repeat split; reflexivity. Qed.
