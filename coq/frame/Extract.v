(** Extraction of the executable model to OCaml ([ExtrOcamlBasic] only). *)
From Coq Require Import ExtrOcamlBasic NArith List.
From DC Require Import Crc Frame Scratch.
Extraction Language OCaml.
Extraction "model.ml"
  N.add N.mul N.sub N.div N.modulo N.ltb N.leb N.eqb N.of_nat N.to_nat
  crc32 le32 of_le32 frame view_using legacy_using using_ok flip wf_bytesb
  model_echo model_status
  run_trace init.
