(** * Crc: bit-serial reflected CRC-32 (the checksum [crc32fast::hash] computes)

    Definitions only (the executable model).  Proofs are in [FrameProofs.v].

    CRC-32/ISO-HDLC: reflected polynomial [0xEDB88320], initial register and final
    xor [0xFFFFFFFF].  One byte is absorbed by xoring it into the low eight bits of
    the register and clocking the register eight times; one clock ([step0]) shifts
    the register right by one and xors the polynomial in when the bit shifted out
    was set.  A byte is an [N] below 256, a byte string is a [list N]. *)

From Coq Require Import NArith List.
Import ListNotations.
Open Scope N_scope.

Definition POLY : N := 3988292384.        (* 0xEDB88320 *)
Definition MASK32 : N := 4294967295.      (* 0xFFFFFFFF *)
Definition TWO32 : N := 4294967296.

(** One clock of the register. *)
Definition step0 (d : N) : N :=
  if N.odd d then N.lxor (N.shiftr d 1) POLY else N.shiftr d 1.

Fixpoint steps (n : nat) (d : N) : N :=
  match n with
  | O => d
  | S k => steps k (step0 d)
  end.

(** Absorb one byte. *)
Definition crc_byte (reg byte : N) : N := steps 8 (N.lxor reg byte).

(** Register after absorbing [l] starting from [reg]. *)
Definition crc_update (reg : N) (l : list N) : N := fold_left crc_byte l reg.

Definition crc32 (l : list N) : N := N.lxor (crc_update MASK32 l) MASK32.

(** Four little-endian bytes of a 32-bit word, and back. *)
Definition le32 (x : N) : list N :=
  [ x mod 256; (x / 256) mod 256; (x / 65536) mod 256; (x / 16777216) mod 256 ].

Definition of_le32 (bs : list N) : N :=
  match bs with
  | [b0; b1; b2; b3] => b0 + 256 * (b1 + 256 * (b2 + 256 * b3))
  | _ => 0
  end.

(** Every element is a byte. *)
Definition is_byte (x : N) : Prop := x < 256.
Definition wf_bytes (l : list N) : Prop := Forall is_byte l.
Definition wf_bytesb (l : list N) : bool := forallb (fun x => x <? 256) l.
