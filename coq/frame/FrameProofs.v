(** * FrameProofs: facts about the CRC-32 and frame model of [Crc.v] and [Frame.v] *)

From Coq Require Import NArith PeanoNat List Bool Lia ZArith.
From Coq Require Import ZifyBool ZifyN ZifyNat.
From Coq.Strings Require Import Byte.
From DC Require Import Crc Frame.
Import ListNotations.
Open Scope N_scope.

Ltac Zify.zify_post_hook ::= Z.div_mod_to_equations.

Arguments N.add : simpl never.
Arguments N.sub : simpl never.
Arguments N.mul : simpl never.
Arguments N.div : simpl never.
Arguments N.modulo : simpl never.
Arguments N.ltb : simpl never.
Arguments N.leb : simpl never.
Arguments N.eqb : simpl never.
Arguments N.shiftl : simpl never.
Arguments N.shiftr : simpl never.
Arguments N.lor : simpl never.
Arguments N.land : simpl never.
Arguments N.lxor : simpl never.
Arguments N.pow : simpl never.
Arguments N.odd : simpl never.
Arguments N.testbit : simpl never.

(** ** Bit-level lemmas *)

Lemma testbit_small b k n : b < 2 ^ k -> k <= n -> N.testbit b n = false.
Proof.
  intros Hb Hk. destruct (N.eq_dec b 0) as [->|Hnz]; [apply N.bits_0|].
  apply N.bits_above_log2.
  assert (N.log2 b < k) by (apply N.log2_lt_pow2; lia). lia.
Qed.

Lemma lxor_lt_pow2 a b k : a < 2 ^ k -> b < 2 ^ k -> N.lxor a b < 2 ^ k.
Proof.
  intros Ha Hb.
  destruct (N.eq_dec (N.lxor a b) 0) as [->|Hnz].
  - apply N.neq_0_lt_0. apply N.pow_nonzero. lia.
  - apply N.log2_lt_pow2; [lia|].
    pose proof (N.log2_lxor a b) as Hl.
    assert (N.log2 a < k \/ a = 0) as Ha'.
    { destruct (N.eq_dec a 0); [right; assumption|left; apply N.log2_lt_pow2; lia]. }
    assert (N.log2 b < k \/ b = 0) as Hb'.
    { destruct (N.eq_dec b 0); [right; assumption|left; apply N.log2_lt_pow2; lia]. }
    destruct Ha' as [Ha'| ->], Hb' as [Hb'| ->].
    + lia.
    + rewrite N.lxor_0_r in *. lia.
    + rewrite N.lxor_0_l in *. lia.
    + rewrite N.lxor_0_l in Hnz. lia.
Qed.

Lemma lxor_cancel_r a b c : N.lxor a c = N.lxor b c -> a = b.
Proof.
  intros H.
  assert (N.lxor (N.lxor a c) c = N.lxor (N.lxor b c) c) as H' by (rewrite H; reflexivity).
  rewrite !N.lxor_assoc, !N.lxor_nilpotent, !N.lxor_0_r in H'. exact H'.
Qed.

Lemma lxor_cancel_l a b c : N.lxor c a = N.lxor c b -> a = b.
Proof. rewrite !(N.lxor_comm c). apply lxor_cancel_r. Qed.

Lemma lxor_neq_self a p : p <> 0 -> N.lxor a p <> a.
Proof.
  intros Hp H. apply Hp. apply (lxor_cancel_l p 0 a).
  rewrite N.lxor_0_r. exact H.
Qed.

Lemma pow2_32 : 2 ^ 32 = TWO32. Proof. reflexivity. Qed.
Lemma pow2_8 : 2 ^ 8 = 256. Proof. reflexivity. Qed.

Lemma POLY_lt : POLY < 2 ^ 32. Proof. reflexivity. Qed.
Lemma POLY_bit31 : N.testbit POLY 31 = true. Proof. reflexivity. Qed.
Lemma MASK32_lt : MASK32 < TWO32. Proof. reflexivity. Qed.

Lemma shiftr1_lt d : d < 2 ^ 32 -> N.shiftr d 1 < 2 ^ 32.
Proof.
  intros Hd. rewrite N.shiftr_div_pow2. change (2 ^ 1) with 2.
  change (2 ^ 32) with 4294967296 in *. lia.
Qed.

Lemma shiftr1_bit31 d : d < 2 ^ 32 -> N.testbit (N.shiftr d 1) 31 = false.
Proof.
  intros Hd. rewrite N.shiftr_spec by lia. change (31 + 1) with 32.
  apply (testbit_small d 32); [assumption|lia].
Qed.

(** ** One clock of the register: stays in 32 bits, and is injective there because
    bit 31 of the result reveals the bit that was shifted out. *)

Lemma step0_lt d : d < TWO32 -> step0 d < TWO32.
Proof.
  rewrite <- pow2_32. intros Hd. unfold step0.
  destruct (N.odd d).
  - apply lxor_lt_pow2; [apply shiftr1_lt; assumption|apply POLY_lt].
  - apply shiftr1_lt; assumption.
Qed.

Lemma step0_bit31 d : d < TWO32 -> N.testbit (step0 d) 31 = N.odd d.
Proof.
  rewrite <- pow2_32. intros Hd. unfold step0.
  destruct (N.odd d).
  - rewrite N.lxor_spec, shiftr1_bit31 by assumption. rewrite POLY_bit31. reflexivity.
  - apply shiftr1_bit31; assumption.
Qed.

Lemma shiftr1_odd_inj d1 d2 :
  N.shiftr d1 1 = N.shiftr d2 1 -> N.odd d1 = N.odd d2 -> d1 = d2.
Proof.
  intros Hs Ho. rewrite <- !N.div2_spec in Hs.
  rewrite (N.div2_odd d1), (N.div2_odd d2), Hs, Ho. reflexivity.
Qed.

Lemma step0_inj d1 d2 : d1 < TWO32 -> d2 < TWO32 -> step0 d1 = step0 d2 -> d1 = d2.
Proof.
  intros H1 H2 He.
  assert (N.odd d1 = N.odd d2) as Ho.
  { rewrite <- (step0_bit31 d1), <- (step0_bit31 d2) by assumption. rewrite He. reflexivity. }
  apply shiftr1_odd_inj; [|assumption].
  unfold step0 in He. rewrite <- Ho in He. destruct (N.odd d1).
  - apply lxor_cancel_r in He. exact He.
  - exact He.
Qed.

Lemma steps_lt n d : d < TWO32 -> steps n d < TWO32.
Proof.
  revert d. induction n as [|n IH]; intros d Hd; cbn [steps]; [assumption|].
  apply IH. apply step0_lt. assumption.
Qed.

Lemma steps_inj n d1 d2 : d1 < TWO32 -> d2 < TWO32 -> steps n d1 = steps n d2 -> d1 = d2.
Proof.
  revert d1 d2. induction n as [|n IH]; intros d1 d2 H1 H2 He; cbn [steps] in He; [assumption|].
  apply step0_inj; [assumption|assumption|].
  apply IH; [apply step0_lt; assumption|apply step0_lt; assumption|assumption].
Qed.

(** ** Absorbing a byte *)

Lemma byte_lt32 b : is_byte b -> b < 2 ^ 32.
Proof. unfold is_byte. change (2 ^ 32) with 4294967296. lia. Qed.

Lemma crc_byte_lt r b : r < TWO32 -> is_byte b -> crc_byte r b < TWO32.
Proof.
  intros Hr Hb. unfold crc_byte. apply steps_lt. rewrite <- pow2_32 in *.
  apply lxor_lt_pow2; [assumption|apply byte_lt32; assumption].
Qed.

Lemma crc_byte_inj_reg r1 r2 b :
  r1 < TWO32 -> r2 < TWO32 -> is_byte b -> crc_byte r1 b = crc_byte r2 b -> r1 = r2.
Proof.
  intros H1 H2 Hb He. unfold crc_byte in He.
  apply steps_inj in He.
  - apply lxor_cancel_r in He. exact He.
  - rewrite <- pow2_32 in *. apply lxor_lt_pow2; [assumption|apply byte_lt32; assumption].
  - rewrite <- pow2_32 in *. apply lxor_lt_pow2; [assumption|apply byte_lt32; assumption].
Qed.

Lemma crc_byte_inj_byte r b1 b2 :
  r < TWO32 -> is_byte b1 -> is_byte b2 -> crc_byte r b1 = crc_byte r b2 -> b1 = b2.
Proof.
  intros Hr H1 H2 He. unfold crc_byte in He.
  apply steps_inj in He.
  - apply lxor_cancel_l in He. exact He.
  - rewrite <- pow2_32 in *. apply lxor_lt_pow2; [assumption|apply byte_lt32; assumption].
  - rewrite <- pow2_32 in *. apply lxor_lt_pow2; [assumption|apply byte_lt32; assumption].
Qed.

Lemma crc_update_lt l : forall r, r < TWO32 -> wf_bytes l -> crc_update r l < TWO32.
Proof.
  unfold crc_update. induction l as [|b l IH]; intros r Hr Hw; cbn [fold_left]; [assumption|].
  inversion Hw as [|? ? Hb Hl]; subst. apply IH; [apply crc_byte_lt; assumption|assumption].
Qed.

Lemma crc_update_app r l1 l2 : crc_update r (l1 ++ l2) = crc_update (crc_update r l1) l2.
Proof. unfold crc_update. apply fold_left_app. Qed.

Lemma crc_update_inj_reg l : forall r1 r2,
  r1 < TWO32 -> r2 < TWO32 -> wf_bytes l -> crc_update r1 l = crc_update r2 l -> r1 = r2.
Proof.
  unfold crc_update. induction l as [|b l IH]; intros r1 r2 H1 H2 Hw He; cbn [fold_left] in He;
    [assumption|].
  inversion Hw as [|? ? Hb Hl]; subst.
  apply IH in He; [|apply crc_byte_lt; assumption|apply crc_byte_lt; assumption|assumption].
  apply crc_byte_inj_reg in He; assumption.
Qed.

(** The register never leaves 32 bits, whatever the (well-formed) input. *)
Lemma crc32_lt l : wf_bytes l -> crc32 l < TWO32.
Proof.
  intros Hw. unfold crc32. rewrite <- pow2_32.
  apply lxor_lt_pow2; rewrite pow2_32; [|apply MASK32_lt].
  apply crc_update_lt; [apply MASK32_lt|assumption].
Qed.

(** Two inputs of the same length that differ in exactly one byte have different
    checksums (so in particular every single-bit error is detected, at any length). *)
Lemma crc32_one_byte_differs p s b1 b2 :
  wf_bytes p -> wf_bytes s -> is_byte b1 -> is_byte b2 -> b1 <> b2 ->
  crc32 (p ++ b1 :: s) <> crc32 (p ++ b2 :: s).
Proof.
  intros Hp Hs H1 H2 Hne He. apply Hne. unfold crc32 in He.
  apply lxor_cancel_r in He.
  rewrite !crc_update_app in He.
  assert (crc_update MASK32 p < TWO32) as Hr by (apply crc_update_lt; [apply MASK32_lt|assumption]).
  set (r := crc_update MASK32 p) in *.
  change (crc_update r (b1 :: s)) with (crc_update (crc_byte r b1) s) in He.
  change (crc_update r (b2 :: s)) with (crc_update (crc_byte r b2) s) in He.
  apply crc_update_inj_reg in He; [|apply crc_byte_lt; assumption|apply crc_byte_lt; assumption|assumption].
  apply crc_byte_inj_byte in He; assumption.
Qed.

(** ** Little-endian words *)

Lemma of_le32_le32 x : x < TWO32 -> of_le32 (le32 x) = x.
Proof. unfold TWO32, of_le32, le32. intros Hx. lia. Qed.

Lemma le32_length x : length (le32 x) = 4%nat.
Proof. reflexivity. Qed.

Lemma le32_wf x : wf_bytes (le32 x).
Proof. unfold le32, wf_bytes, is_byte. repeat constructor; lia. Qed.

Lemma of_le32_inj a b :
  length a = 4%nat -> length b = 4%nat -> wf_bytes a -> wf_bytes b ->
  of_le32 a = of_le32 b -> a = b.
Proof.
  intros La Lb Wa Wb.
  destruct a as [|a0 [|a1 [|a2 [|a3 [|? ?]]]]]; try discriminate La.
  destruct b as [|b0 [|b1 [|b2 [|b3 [|? ?]]]]]; try discriminate Lb.
  unfold wf_bytes, is_byte in *.
  repeat match goal with H : Forall _ (_ :: _) |- _ => inversion H; clear H; subst end.
  cbn [of_le32]. intros He.
  assert (a0 = b0 /\ a1 = b1 /\ a2 = b2 /\ a3 = b3) as (-> & -> & -> & ->) by lia.
  reflexivity.
Qed.

(** ** Framing *)

Lemma frame_length b : length (frame b) = (length b + 4)%nat.
Proof. unfold frame. rewrite app_length, le32_length. reflexivity. Qed.

Lemma split_trailer_app b t : length t = 4%nat -> split_trailer (b ++ t) = (b, t).
Proof.
  intros Ht. unfold split_trailer. rewrite app_length, Ht.
  replace (length b + 4 - 4)%nat with (length b) by lia.
  rewrite firstn_app, skipn_app, firstn_all, skipn_all, Nat.sub_diag.
  cbn [firstn skipn app]. rewrite app_nil_r. reflexivity.
Qed.

Lemma using_app_trailer fixed b t :
  length t = 4%nat ->
  view_using fixed (b ++ t) =
    if negb (of_le32 t =? crc32 b) then Invalid
    else if (length b <? fixed)%nat then Invalid else Ok b.
Proof.
  intros Ht. unfold view_using. rewrite app_length, Ht.
  replace (length b + 4 <? 4)%nat with false by (symmetry; apply Nat.ltb_ge; lia).
  rewrite split_trailer_app by assumption.
  destruct (negb (of_le32 t =? crc32 b)); [reflexivity|].
  unfold archived_root. destruct (length b <? fixed)%nat; reflexivity.
Qed.

Lemma wf_bytes_app a b : wf_bytes (a ++ b) <-> wf_bytes a /\ wf_bytes b.
Proof. unfold wf_bytes. apply Forall_app. Qed.

Lemma frame_wf b : wf_bytes b -> wf_bytes (frame b).
Proof. intros Hb. unfold frame. apply wf_bytes_app. split; [assumption|apply le32_wf]. Qed.

(** (1) A frame is accepted and yields its body. *)
Lemma using_frame fixed b :
  wf_bytes b -> (fixed <= length b)%nat -> view_using fixed (frame b) = Ok b.
Proof.
  intros Hw Hf. unfold frame. rewrite using_app_trailer by apply le32_length.
  rewrite of_le32_le32 by (apply crc32_lt; assumption).
  rewrite N.eqb_refl. cbn [negb].
  replace (length b <? fixed)%nat with false by (symmetry; apply Nat.ltb_ge; lia).
  reflexivity.
Qed.

(** A trailer that is not the checksum of what precedes it is refused. *)
Lemma using_mismatch fixed body trailer :
  length trailer = 4%nat -> of_le32 trailer <> crc32 body ->
  view_using fixed (body ++ trailer) = Invalid.
Proof.
  intros Hl Hne. rewrite using_app_trailer by assumption.
  replace (of_le32 trailer =? crc32 body) with false; [reflexivity|].
  symmetry. apply N.eqb_neq. assumption.
Qed.

(** The check value of CRC-32/ISO-HDLC: the checksum of the ASCII digits 1..9. *)
Lemma crc32_check_value : crc32 [49; 50; 51; 52; 53; 54; 55; 56; 57] = 3421780262.
Proof. vm_compute. reflexivity. Qed.

(** The repaired code never casts outside the buffer. *)
Lemma using_in_bounds fixed bs : view_using fixed bs <> OutOfBounds.
Proof.
  unfold view_using. destruct (length bs <? 4)%nat; [discriminate|].
  destruct (split_trailer bs) as [body trailer].
  destruct (negb (of_le32 trailer =? crc32 body)); [discriminate|].
  unfold archived_root. destruct (length body <? fixed)%nat; discriminate.
Qed.

(** What an accepted buffer looks like. *)
Lemma using_ok_inv fixed bs body :
  view_using fixed bs = Ok body ->
  exists trailer, bs = body ++ trailer /\ length trailer = 4%nat /\
                  of_le32 trailer = crc32 body /\ (fixed <= length body)%nat.
Proof.
  unfold view_using. destruct (length bs <? 4)%nat eqn:E4; [discriminate|].
  apply Nat.ltb_ge in E4.
  unfold split_trailer.
  destruct (negb (of_le32 (skipn (length bs - 4) bs) =? crc32 (firstn (length bs - 4) bs))) eqn:Ec;
    [discriminate|].
  destruct (length (firstn (length bs - 4) bs) <? fixed)%nat eqn:Ef; [discriminate|].
  unfold archived_root. rewrite Ef. intros H. injection H as <-.
  exists (skipn (length bs - 4) bs). split; [symmetry; apply firstn_skipn|].
  split; [rewrite skipn_length; lia|].
  split; [apply negb_false_iff, N.eqb_eq in Ec; exact Ec|apply Nat.ltb_ge in Ef; exact Ef].
Qed.

(** (3) Everything shorter than the fixed part plus the trailer is refused. *)
Lemma using_short fixed bs : (length bs < fixed + 4)%nat -> view_using fixed bs = Invalid.
Proof.
  intros Hl. unfold view_using. destruct (length bs <? 4)%nat eqn:E4; [reflexivity|].
  apply Nat.ltb_ge in E4. unfold split_trailer.
  destruct (negb _); [reflexivity|].
  rewrite firstn_length.
  replace (Nat.min (length bs - 4) (length bs) <? fixed)%nat with true
    by (symmetry; apply Nat.ltb_lt; lia).
  reflexivity.
Qed.

Lemma using_four_zeros fixed : (0 < fixed)%nat -> view_using fixed [0; 0; 0; 0] = Invalid.
Proof. intros Hf. apply using_short. cbn [length]. lia. Qed.

(** (4) Before the repair the four zero bytes (the checksum of the empty body) were
    cast as any archived type. *)
Lemma legacy_using_four_zeros fixed :
  (0 < fixed)%nat -> legacy_using fixed [0; 0; 0; 0] = OutOfBounds.
Proof.
  intros Hf. destruct fixed as [|k]; [lia|]. reflexivity.
Qed.

Lemma legacy_using_refuted :
  exists fixed bs, (length bs < fixed + 4)%nat /\ legacy_using fixed bs = OutOfBounds.
Proof. exists 1%nat, [0; 0; 0; 0]. vm_compute. split; [lia|reflexivity]. Qed.

(** ** Corruptions *)

Lemma flip_at_length k bit l : length (flip_at k bit l) = length l.
Proof.
  revert k. induction l as [|x t IH]; intros k; [reflexivity|].
  destruct k; cbn [flip_at length]; [reflexivity|]. rewrite IH. reflexivity.
Qed.

Lemma flip_at_app_l k bit a b :
  (k < length a)%nat -> flip_at k bit (a ++ b) = flip_at k bit a ++ b.
Proof.
  revert k. induction a as [|x t IH]; intros k Hk; cbn [length] in Hk; [lia|].
  destruct k; cbn [flip_at app]; [reflexivity|]. rewrite IH by lia. reflexivity.
Qed.

Lemma flip_at_app_r k bit a b :
  (length a <= k)%nat -> flip_at k bit (a ++ b) = a ++ flip_at (k - length a) bit b.
Proof.
  revert k. induction a as [|x t IH]; intros k Hk; cbn [length app] in *.
  - rewrite Nat.sub_0_r. reflexivity.
  - destruct k; [lia|]. cbn [flip_at]. rewrite IH by lia. reflexivity.
Qed.

Lemma flip_at_split k bit l :
  (k < length l)%nat ->
  exists p x s, l = p ++ x :: s /\ flip_at k bit l = p ++ N.lxor x (N.shiftl 1 bit) :: s.
Proof.
  revert k. induction l as [|y t IH]; intros k Hk; cbn [length] in Hk; [lia|].
  destruct k.
  - exists [], y, t. split; reflexivity.
  - destruct (IH k) as (p & x & s & -> & E); [lia|].
    exists (y :: p), x, s. cbn [flip_at app]. rewrite E. split; reflexivity.
Qed.

Lemma shiftl1_lt bit : bit < 8 -> N.shiftl 1 bit < 2 ^ 8 /\ N.shiftl 1 bit <> 0.
Proof.
  intros Hb. rewrite N.shiftl_1_l. split.
  - apply N.pow_lt_mono_r; lia.
  - apply N.pow_nonzero. lia.
Qed.

Lemma flip_byte x bit :
  is_byte x -> bit < 8 ->
  is_byte (N.lxor x (N.shiftl 1 bit)) /\ N.lxor x (N.shiftl 1 bit) <> x.
Proof.
  unfold is_byte. intros Hx Hb. destruct (shiftl1_lt bit Hb) as [Hlt Hnz]. split.
  - rewrite <- pow2_8 in *. apply lxor_lt_pow2; assumption.
  - apply lxor_neq_self. assumption.
Qed.

Lemma flip_at_wf k bit l : bit < 8 -> wf_bytes l -> wf_bytes (flip_at k bit l).
Proof.
  intros Hb. revert k. induction l as [|x t IH]; intros k Hw; [exact Hw|].
  inversion Hw as [|? ? Hx Ht]; subst.
  destruct k; cbn [flip_at]; constructor; try assumption.
  - apply flip_byte; assumption.
  - apply IH. assumption.
Qed.

Lemma flip_at_neq k bit l :
  bit < 8 -> wf_bytes l -> (k < length l)%nat -> flip_at k bit l <> l.
Proof.
  intros Hb. revert k. induction l as [|x t IH]; intros k Hw Hk; cbn [length] in Hk; [lia|].
  inversion Hw as [|? ? Hx Ht]; subst.
  destruct k; cbn [flip_at]; intros He; injection He as He.
  - apply (flip_byte x bit Hx Hb). assumption.
  - apply (IH k); [assumption|lia|assumption].
Qed.

(** A one-byte change of the body leaves a frame that is refused. *)
Lemma using_body_byte_changed fixed p x y s :
  wf_bytes p -> wf_bytes s -> is_byte x -> is_byte y -> x <> y ->
  view_using fixed ((p ++ y :: s) ++ le32 (crc32 (p ++ x :: s))) = Invalid.
Proof.
  intros Hp Hs Hx Hy Hne.
  rewrite using_app_trailer by apply le32_length.
  assert (wf_bytes (p ++ x :: s)) as Hw.
  { apply wf_bytes_app. split; [assumption|constructor; assumption]. }
  rewrite of_le32_le32 by (apply crc32_lt; assumption).
  replace (crc32 (p ++ x :: s) =? crc32 (p ++ y :: s)) with false; [reflexivity|].
  symmetry. apply N.eqb_neq. apply crc32_one_byte_differs; assumption.
Qed.

(** A change confined to the trailer leaves a frame that is refused. *)
Lemma using_trailer_changed fixed b t :
  wf_bytes b -> wf_bytes t -> length t = 4%nat -> t <> le32 (crc32 b) ->
  view_using fixed (b ++ t) = Invalid.
Proof.
  intros Hb Ht Hl Hne. rewrite using_app_trailer by assumption.
  replace (of_le32 t =? crc32 b) with false; [reflexivity|].
  symmetry. apply N.eqb_neq. intros He. apply Hne.
  apply of_le32_inj; [assumption|apply le32_length|assumption|apply le32_wf|].
  rewrite of_le32_le32 by (apply crc32_lt; assumption). exact He.
Qed.

(** (2) Every single-bit corruption of a frame of any length is refused. *)
Lemma using_flip_frame fixed b i :
  wf_bytes b -> i < 8 * N.of_nat (length b + 4) ->
  view_using fixed (flip i (frame b)) = Invalid.
Proof.
  intros Hw Hi. unfold flip.
  assert (i mod 8 < 8) as Hbit by (apply N.mod_lt; lia).
  set (k := N.to_nat (i / 8)).
  assert (k < length b + 4)%nat as Hk by (unfold k; lia).
  unfold frame.
  destruct (Nat.lt_ge_cases k (length b)) as [Hin|Hout].
  - rewrite flip_at_app_l by assumption.
    destruct (flip_at_split k (i mod 8) b Hin) as (p & x & s & Eb & Ef).
    rewrite Ef. rewrite Eb.
    rewrite Eb in Hw. apply wf_bytes_app in Hw. destruct Hw as [Hp Hxs].
    inversion Hxs as [|? ? Hx Hs]; subst.
    destruct (flip_byte x (i mod 8) Hx Hbit) as [Hy Hne].
    apply using_body_byte_changed; try assumption.
    intros E. apply Hne. symmetry. exact E.
  - rewrite flip_at_app_r by assumption.
    apply using_trailer_changed.
    + assumption.
    + apply flip_at_wf; [assumption|apply le32_wf].
    + rewrite flip_at_length. apply le32_length.
    + apply flip_at_neq; [assumption|apply le32_wf|rewrite le32_length; lia].
Qed.

(** ** Typed messages and one RPC exchange *)

Lemma decode_encode {A} (c : codec A) a :
  codec_ok c -> decode c (encode c a) = Ok a.
Proof.
  intros (Hv & Hf & Hw). unfold decode, encode.
  rewrite using_frame by (try apply Hw; apply Hf).
  rewrite Hv. reflexivity.
Qed.

Lemma decode_in_bounds {A} (c : codec A) bs : decode c bs <> OutOfBounds.
Proof.
  unfold decode. pose proof (using_in_bounds (fixed c) bs) as H.
  destruct (view_using (fixed c) bs) as [body| |]; [|discriminate|congruence].
  destruct (view c body); discriminate.
Qed.

Lemma decode_refused {A} (c : codec A) bs :
  view_using (fixed c) bs = Invalid -> decode c bs = Invalid.
Proof. intros H. unfold decode. rewrite H. reflexivity. Qed.

Section RpcProofs.
  Context {msg reply status : Type}.
  Context (cm : codec msg) (cr : codec reply) (cs : codec status).
  Context (invalid : status).
  Context (handler : msg -> reply + status).
  Context (Hm : codec_ok cm) (Hr : codec_ok cr) (Hs : codec_ok cs).

  (** The handler sees exactly the value sent, exactly once, and the client sees
      exactly what the handler returned: its reply, or its error status. *)
  Lemma call_roundtrip m : call cm cr cs invalid handler m = ([m], handler m).
  Proof.
    unfold call, server. rewrite decode_encode by assumption.
    destruct (handler m) as [r|st]; unfold client; cbn [http_ok resp_body].
    - rewrite decode_encode by assumption. reflexivity.
    - rewrite decode_encode by assumption. reflexivity.
  Qed.

  (** A refused request runs no handler and the client is told [invalid]. *)
  Lemma server_refuses req :
    view_using (fixed cm) req = Invalid ->
    fst (server cm cr cs invalid handler req) = [] /\
    client cr cs invalid (snd (server cm cr cs invalid handler req)) = inr invalid.
  Proof.
    intros Hu. unfold server. rewrite (decode_refused cm req Hu). cbn [fst snd].
    split; [reflexivity|]. unfold client. cbn [http_ok resp_body].
    rewrite decode_encode by assumption. reflexivity.
  Qed.

  (** A handler error reaches the client unchanged. *)
  Lemma call_error m st :
    handler m = inr st -> snd (call cm cr cs invalid handler m) = inr st.
  Proof. intros H. rewrite call_roundtrip, H. reflexivity. Qed.

  Lemma call_reply m r :
    handler m = inl r -> snd (call cm cr cs invalid handler m) = inl r.
  Proof. intros H. rewrite call_roundtrip, H. reflexivity. Qed.

  (** The handler runs only on frames that pass the three checks. *)
  Lemma server_runs_only_on_valid req m :
    In m (fst (server cm cr cs invalid handler req)) ->
    exists body, view_using (fixed cm) req = Ok body /\ view cm body = Some m.
  Proof.
    unfold server, decode.
    destruct (view_using (fixed cm) req) as [body| |]; cbn [fst]; try (intros []).
    destruct (view cm body) as [m'|] eqn:Ev; cbn [fst]; [|intros []].
    intros [<-|[]]. exists body. split; [reflexivity|assumption].
  Qed.
End RpcProofs.

(** ** Concrete codecs satisfying [codec_ok] (non-vacuity of the hypotheses) *)

Definition ex_codec : codec (bool * bool) := {|
  fixed := 2;
  archive := fun p => [N.b2n (fst p); N.b2n (snd p)];
  view := fun bs => match bs with [x; y] => Some (N.odd x, N.odd y) | _ => None end;
|}.

Lemma ex_codec_ok : codec_ok ex_codec.
Proof.
  split; [|split].
  - intros [[|] [|]]; reflexivity.
  - intros p. cbn [fixed archive ex_codec length]. lia.
  - intros [[|] [|]]; repeat constructor.
Qed.

Definition code_to_N (c : error_code) : N :=
  match c with
  | ServiceUnavailable => 0 | InternalError => 1 | InvalidPayload => 2
  | ConnectionError => 3 | Timeout => 4
  end.

Definition code_of_N (n : N) : option error_code :=
  match n with
  | 0 => Some ServiceUnavailable | 1 => Some InternalError | 2 => Some InvalidPayload
  | 3 => Some ConnectionError | 4 => Some Timeout | _ => None
  end.

Fixpoint bytes_of_Ns (l : list N) : option (list byte) :=
  match l with
  | [] => Some []
  | x :: t =>
      match Byte.of_N x, bytes_of_Ns t with
      | Some b, Some r => Some (b :: r)
      | _, _ => None
      end
  end.

Definition ex_status_codec : codec status_t := {|
  fixed := 1;
  archive := fun s => code_to_N (st_code s) :: map Byte.to_N (st_message s);
  view := fun bs =>
    match bs with
    | c :: m =>
        match code_of_N c, bytes_of_Ns m with
        | Some c', Some m' => Some {| st_code := c'; st_message := m' |}
        | _, _ => None
        end
    | [] => None
    end;
|}.

Lemma bytes_of_Ns_to_N m : bytes_of_Ns (map Byte.to_N m) = Some m.
Proof.
  induction m as [|b m IH]; [reflexivity|].
  cbn [map bytes_of_Ns]. rewrite Byte.of_to_N, IH. reflexivity.
Qed.

Lemma ex_status_codec_ok : codec_ok ex_status_codec.
Proof.
  split; [|split].
  - intros [c m]. cbn [view archive ex_status_codec st_code st_message].
    rewrite bytes_of_Ns_to_N. destruct c; reflexivity.
  - intros s. cbn [fixed archive ex_status_codec length]. lia.
  - intros [c m]. cbn [archive ex_status_codec st_code st_message]. constructor.
    + unfold is_byte. destruct c; cbn [code_to_N]; lia.
    + induction m as [|b m IH]; [constructor|].
      cbn [map]. constructor; [|exact IH].
      unfold is_byte. pose proof (Byte.to_N_bounded b). lia.
Qed.
