(** * Scratch: model of the serializer's scratch space
    (datacake-rpc/src/rkyv_tooling/scratch.rs: [LazyScratch], over rkyv 0.7.46's
    [BufferScratch] and [AllocScratch])

    Definitions only (the executable model).  Proofs are in [ScratchProofs.v].

    [to_view_bytes] serializes with a [CompositeSerializer] whose scratch space is a
    [LazyScratch]: a 1 KiB buffer inside the value ("stack"), a lazily allocated 16 KiB
    buffer ("heap"), and the global allocator ("alloc").  A request is tried on each
    tier in turn; a release is offered to each tier in turn.  The serializer obtains
    and releases blocks in a strictly nested (last obtained, first released) order, and
    never asks for an empty block ([ScratchVec::new] hands out a dangling pointer for a
    zero-sized layout without calling the scratch space).

    Addresses are abstract: a block is named by its tier and, for the two buffers, its
    offset from the buffer's start; both buffers start at a 16-byte boundary
    ([AlignedBytes] is [repr(align(16))]), so the padding for an alignment dividing 16
    is a function of the offset alone.  Alignments above 16 are outside the model.

    [BufferScratch] computes its buffer pointer at the first request ([ptr], a
    TODO in rkyv) and unwraps it in every release: a release offered to a buffer that
    never saw a request panics.  The model keeps that flag and that outcome. *)

From Coq Require Import NArith List Bool.
Import ListNotations.
Open Scope N_scope.

Definition STACK_SCRATCH_SIZE : N := 1024.
Definition HEAP_SCRATCH_SIZE : N := 16384.

(** One [BufferScratch]. *)
Record buf := { cap : N; pos : N; ptr_set : bool }.

Definition new_buf (c : N) : buf := {| cap := c; pos := 0; ptr_set := false |}.

(** A block handed out by the scratch space. *)
Inductive handle :=
| HStack (off : N)
| HHeap (off : N)
| HAlloc (id : N).

Definition pad_for (p align : N) : N :=
  match p mod align with 0 => 0 | x => align - x end.

(** [BufferScratch::push_scratch]: the buffer pointer is computed whatever the outcome. *)
Definition buf_push (b : buf) (size align : N) : buf * option N :=
  let pad := pad_for (pos b) align in
  if pad + size <=? cap b - pos b
  then ({| cap := cap b; pos := pos b + pad + size; ptr_set := true |}, Some (pos b + pad))
  else ({| cap := cap b; pos := pos b; ptr_set := true |}, None).

Inductive pop_result :=
| PopOk (b : buf)
| PopErr
| PopPanic.

(** [BufferScratch::pop_scratch]; [off] is [Some o] when the pointer lies in this
    buffer at offset [o < cap], [None] when it lies elsewhere ([UnownedAllocation]). *)
Definition buf_pop (b : buf) (off : option N) (size : N) : pop_result :=
  if ptr_set b then
    match off with
    | Some o =>
      if o <? cap b then
        if o + size <=? pos b then PopOk {| cap := cap b; pos := o; ptr_set := true |} else PopErr
      else PopErr
    | None => PopErr
    end
  else PopPanic.

(** [AllocScratch] (no limit): the allocations in progress, newest first, each with the
    layout it was made with. *)
Record scratch := {
  stack : buf;
  heap : option buf;
  allocs : list (N * N * N);     (* id, size, align *)
  next_id : N
}.

Definition init : scratch :=
  {| stack := new_buf STACK_SCRATCH_SIZE; heap := None; allocs := []; next_id := 0 |}.

Definition heap_or_new (s : scratch) : buf :=
  match heap s with Some h => h | None => new_buf HEAP_SCRATCH_SIZE end.

(** [LazyScratch::push_scratch] *)
Definition lazy_push (s : scratch) (size align : N) : scratch * handle :=
  let (st, r) := buf_push (stack s) size align in
  match r with
  | Some o => ({| stack := st; heap := heap s; allocs := allocs s; next_id := next_id s |}, HStack o)
  | None =>
    let (hp, r2) := buf_push (heap_or_new s) size align in
    match r2 with
    | Some o => ({| stack := st; heap := Some hp; allocs := allocs s; next_id := next_id s |}, HHeap o)
    | None =>
      ({| stack := st; heap := Some hp; allocs := (next_id s, size, align) :: allocs s;
          next_id := next_id s + 1 |}, HAlloc (next_id s))
    end
  end.

Inductive result :=
| ROk (s : scratch)
| RErr (s : scratch)      (* the release was refused by every tier *)
| RPanic (s : scratch).   (* the state the unwinding leaves behind *)

Definition in_stack (h : handle) : option N := match h with HStack o => Some o | _ => None end.
Definition in_heap (h : handle) : option N := match h with HHeap o => Some o | _ => None end.

Definition alloc_pop (s : scratch) (st : buf) (hp : buf) (h : handle) (size align : N) : result :=
  let s' := {| stack := st; heap := Some hp; allocs := allocs s; next_id := next_id s |} in
  match allocs s with
  | [] => RErr s'
  | (id, sz, al) :: rest =>
    match h with
    | HAlloc i =>
      if (i =? id) && (sz =? size) && (al =? align)
      then ROk {| stack := st; heap := Some hp; allocs := rest; next_id := next_id s |}
      else RErr s'
    | _ => RErr s'
    end
  end.

(** [LazyScratch::pop_scratch] *)
Definition lazy_pop (s : scratch) (h : handle) (size align : N) : result :=
  match buf_pop (stack s) (in_stack h) size with
  | PopPanic => RPanic s
  | PopOk st => ROk {| stack := st; heap := heap s; allocs := allocs s; next_id := next_id s |}
  | PopErr =>
    let hp := heap_or_new s in
    match buf_pop hp (in_heap h) size with
    | PopPanic =>      (* [get_or_insert_with] has already created the second buffer *)
      RPanic {| stack := stack s; heap := Some hp; allocs := allocs s; next_id := next_id s |}
    | PopOk hp' => ROk {| stack := stack s; heap := Some hp'; allocs := allocs s; next_id := next_id s |}
    | PopErr => alloc_pop s (stack s) hp h size align
    end
  end.

(** A release that picks its tier by the size of the block instead of offering the block to
    each tier in turn (seeded change C12/A of the sixth wave: "anything larger than the stack
    scratch can never have come from it, and the heap scratch only needs checking if it was
    ever allocated"). *)
Definition lazy_pop_by_size (s : scratch) (h : handle) (size align : N) : result :=
  if size <=? STACK_SCRATCH_SIZE then
    match buf_pop (stack s) (in_stack h) size with
    | PopPanic => RPanic s
    | PopOk st => ROk {| stack := st; heap := heap s; allocs := allocs s; next_id := next_id s |}
    | PopErr =>
      match allocs s, h with
      | (id, sz, al) :: rest, HAlloc i =>
        if (i =? id) && (sz =? size) && (al =? align)
        then ROk {| stack := stack s; heap := heap s; allocs := rest; next_id := next_id s |}
        else RErr s
      | _, _ => RErr s
      end
    end
  else lazy_pop s h size align.

(** ** The serializer's discipline: nested sessions

    [Node size align children]: obtain a block, run the children one after another,
    release the block with the layout it was obtained with. *)
Inductive session :=
| Node (size align : N) (children : list session).

Section run.
  Context (pop : scratch -> handle -> N -> N -> result).

  Fixpoint run_session (t : session) (s : scratch) : result :=
    match t with
    | Node size align children =>
      let (s1, h) := lazy_push s size align in
      let fix run_list (l : list session) (s : scratch) : result :=
        match l with
        | [] => ROk s
        | t :: l' =>
          match run_session t s with
          | ROk s' => run_list l' s'
          | r => r
          end
        end in
      match run_list children s1 with
      | ROk s2 => pop s2 h size align
      | r => r
      end
    end.

  Fixpoint run_sessions (l : list session) (s : scratch) : result :=
    match l with
    | [] => ROk s
    | t :: l' =>
      match run_session t s with
      | ROk s' => run_sessions l' s'
      | r => r
      end
    end.
End run.

(** ** Flat traces (what the executor replays on the real [LazyScratch])

    [OPush size align] obtains a block, [OPop k size align] releases the block obtained
    by the [k]-th push of the trace (0-based) with the given layout.  Any order is
    allowed here; the outcomes of every step are recorded. *)
Inductive op :=
| OPush (size align : N)
| OPop (k : N) (size align : N).

Inductive step_out :=
| SPushed (h : handle)
| SPopOk
| SPopErr
| SPopPanic
| SBadIndex.

Fixpoint nth_handle (l : list handle) (k : nat) : option handle :=
  match l, k with
  | [], _ => None
  | h :: _, O => Some h
  | _ :: l', S k' => nth_handle l' k'
  end.

(** handles are kept oldest first *)
Fixpoint run_trace (ops : list op) (s : scratch) (hs : list handle) : list step_out * scratch :=
  match ops with
  | [] => ([], s)
  | OPush size align :: rest =>
    let (s', h) := lazy_push s size align in
    let (outs, sf) := run_trace rest s' (hs ++ [h]) in
    (SPushed h :: outs, sf)
  | OPop k size align :: rest =>
    match nth_handle hs (N.to_nat k) with
    | None => let (outs, sf) := run_trace rest s hs in (SBadIndex :: outs, sf)
    | Some h =>
      match lazy_pop s h size align with
      | ROk s' => let (outs, sf) := run_trace rest s' hs in (SPopOk :: outs, sf)
      | RErr s' => let (outs, sf) := run_trace rest s' hs in (SPopErr :: outs, sf)
      | RPanic s' => ([SPopPanic], s')      (* the trace ends at a panic *)
      end
    end
  end.

(** The layouts the serializer asks for and the model is faithful on. *)
Definition valid_layout (size align : N) : bool :=
  (1 <=? size) && ((align =? 1) || (align =? 2) || (align =? 4) || (align =? 8) || (align =? 16)).

Fixpoint wf_session (t : session) : bool :=
  match t with
  | Node size align children =>
    valid_layout size align && forallb wf_session children
  end.
