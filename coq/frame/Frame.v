(** * Frame: model of the datacake-rpc message frame
    (datacake-rpc/src/rkyv_tooling/{mod.rs,view.rs}, request.rs, client.rs, net/server.rs)

    Definitions only (the executable model).  Proofs are in [FrameProofs.v].

    [to_view_bytes v]  = archived bytes of [v] followed by the CRC-32 of those bytes
                         as four little-endian bytes                        ([frame]).
    [DataView::<T>::using bytes] = refuse when shorter than four bytes, when the
                         trailer is not the CRC-32 of what precedes it, or when what
                         precedes it is shorter than [size_of::<T::Archived>()]
                         ([fixed]); otherwise cast the body ([view_using]).
    The model is of the code after the repair of defect D4; [legacy_using] is the
    code as it stood before (no size check before the unchecked cast). *)

From Coq Require Import NArith PeanoNat List Bool.
From Coq.Strings Require Import Byte.
From DC Require Import Crc.
Import ListNotations.
Open Scope N_scope.

(** Outcome of an operation that may fail, or (before the repair) read outside the
    buffer it was given. *)
Inductive outcome (A : Type) : Type :=
| Ok (a : A)
| Invalid
| OutOfBounds.
Arguments Ok {A} a.
Arguments Invalid {A}.
Arguments OutOfBounds {A}.

(** ** Framing *)

Definition frame (body : list N) : list N := body ++ le32 (crc32 body).

(** [rkyv::archived_root::<T>(body)]: an unchecked cast of the last [fixed] bytes of
    [body]; outside the buffer when [body] is shorter than that. *)
Definition archived_root (fixed : nat) (body : list N) : outcome (list N) :=
  if (length body <? fixed)%nat then OutOfBounds else Ok body.

Definition split_trailer (bs : list N) : list N * list N :=
  let n := (length bs - 4)%nat in (firstn n bs, skipn n bs).

Definition view_using (fixed : nat) (bs : list N) : outcome (list N) :=
  if (length bs <? 4)%nat then Invalid
  else
    let '(body, trailer) := split_trailer bs in
    if negb (of_le32 trailer =? crc32 body) then Invalid
    else if (length body <? fixed)%nat then Invalid
    else archived_root fixed body.

(** The code before the repair of D4: no comparison with the size of the archived
    type before the cast. *)
Definition legacy_using (fixed : nat) (bs : list N) : outcome (list N) :=
  if (length bs <? 4)%nat then Invalid
  else
    let '(body, trailer) := split_trailer bs in
    if negb (of_le32 trailer =? crc32 body) then Invalid
    else archived_root fixed body.

(** ** Corruptions *)

(** Flip bit [bit] of the byte at position [k]. *)
Fixpoint flip_at (k : nat) (bit : N) (l : list N) {struct l} : list N :=
  match l with
  | [] => []
  | x :: t =>
      match k with
      | O => N.lxor x (N.shiftl 1 bit) :: t
      | S k' => x :: flip_at k' bit t
      end
  end.

(** Flip bit [i] of a byte string (bit [i mod 8] of byte [i / 8]). *)
Definition flip (i : N) (l : list N) : list N :=
  flip_at (N.to_nat (i / 8)) (i mod 8) l.

(** ** Typed messages

    rkyv's serializer and the archived view of a type are not modelled: a [codec] is
    the pair (archive, view) together with the size of the fixed part of the
    archived type; the theorems assume only the round trip law [codec_ok]. *)
Record codec (A : Type) : Type := {
  fixed : nat;
  archive : A -> list N;
  view : list N -> option A;
}.
Arguments fixed {A} c.
Arguments archive {A} c a.
Arguments view {A} c bs.

Definition codec_ok {A : Type} (c : codec A) : Prop :=
  (forall a, view c (archive c a) = Some a) /\
  (forall a, (fixed c <= length (archive c a))%nat) /\
  (forall a, wf_bytes (archive c a)).

(** [to_view_bytes] / [TryAsBody::try_as_body]. *)
Definition encode {A : Type} (c : codec A) (a : A) : list N := frame (archive c a).

(** [RequestContents::from_body] followed by [deserialize_view]. *)
Definition decode {A : Type} (c : codec A) (bs : list N) : outcome A :=
  match view_using (fixed c) bs with
  | Ok body => match view c body with Some a => Ok a | None => Invalid end
  | Invalid => Invalid
  | OutOfBounds => OutOfBounds
  end.

(** ** One RPC exchange

    The server decodes the request, runs the handler on the decoded value, and
    answers 200 with the framed reply, or a non-OK status with the framed [Status];
    a request that cannot be decoded is answered with [Status::invalid()] and the
    handler is not run.  The first component of [server]'s result is the list of
    values the handler was invoked on. *)
Record response : Type := { http_ok : bool; resp_body : list N }.

Section Rpc.
  Context {msg reply status : Type}.
  Context (cm : codec msg) (cr : codec reply) (cs : codec status).
  Context (invalid : status).               (* Status::invalid() *)
  Context (handler : msg -> reply + status).

  Definition server (req : list N) : list msg * response :=
    match decode cm req with
    | Ok m =>
        ([m], match handler m with
              | inl r => {| http_ok := true; resp_body := encode cr r |}
              | inr st => {| http_ok := false; resp_body := encode cs st |}
              end)
    | _ => ([], {| http_ok := false; resp_body := encode cs invalid |})
    end.

  Definition client (resp : response) : reply + status :=
    if http_ok resp then
      match decode cr (resp_body resp) with
      | Ok r => inl r
      | _ => inr invalid
      end
    else
      match decode cs (resp_body resp) with
      | Ok st => inr st
      | _ => inr invalid
      end.

  Definition call (m : msg) : list msg * (reply + status) :=
    let '(seen, resp) := server (encode cm m) in (seen, client resp).
End Rpc.

(** [Status]: an error code ([ErrorCode]) and a message (a byte string). *)
Inductive error_code : Type :=
| ServiceUnavailable | InternalError | InvalidPayload | ConnectionError | Timeout.

Record status_t : Type := { st_code : error_code; st_message : list Byte.byte }.

(** Result of [view_using] as the executors print it. *)
Definition using_ok (fixed : nat) (bs : list N) : bool :=
  match view_using fixed bs with Ok _ => true | _ => false end.

(** ** Executable instances of one exchange (run by the correspondence check)

    The message is the archived body itself ([raw_codec]: the identity), the status
    is a code and a message laid out as [code :: message]. *)
Definition raw_codec (fixed : nat) : codec (list N) :=
  {| fixed := fixed; archive := fun b => b; view := fun b => Some b |}.

Definition raw_status_codec : codec (N * list N) :=
  {| fixed := 1;
     archive := fun s => fst s :: snd s;
     view := fun bs => match bs with c :: m => Some (c, m) | [] => None end |}.

Definition raw_invalid : N * list N := (2, []).

(** A request frame [req] sent to an echoing handler: what the handler saw and what
    the client got back. *)
Definition model_echo (fixed : nat) (req : list N)
  : list (list N) * ((list N) + (N * list N)) :=
  let '(seen, resp) :=
    server (raw_codec fixed) (raw_codec fixed) raw_status_codec raw_invalid
           (fun b => inl b) req in
  (seen, client (raw_codec fixed) raw_status_codec raw_invalid resp).

(** A handler that fails with status [(code, message)]: what the client observes. *)
Definition model_status (code : N) (message : list N) : (list N) + (N * list N) :=
  snd (call (raw_codec 0) (raw_codec 0) raw_status_codec raw_invalid
            (fun _ => inr (code, message)) []).
