(** * ScratchProofs: the scratch space never refuses the serializer *)
From Coq Require Import NArith List Bool Lia.
From DC Require Import Scratch.
Import ListNotations.
Open Scope N_scope.

Definition buf_inv (c : N) (b : buf) : Prop := cap b = c /\ pos b <= c.

Definition Inv (s : scratch) : Prop :=
  buf_inv STACK_SCRATCH_SIZE (stack s) /\
  match heap s with Some h => buf_inv HEAP_SCRATCH_SIZE h | None => True end.

(** What a run of nested sessions may change: positions only grow (padding is not given
    back), a computed buffer pointer stays computed, the allocator's list is as before. *)
Definition buf_mono (b b' : buf) : Prop :=
  pos b <= pos b' /\ (ptr_set b = true -> ptr_set b' = true).

Definition Mono (s s' : scratch) : Prop :=
  buf_mono (stack s) (stack s') /\
  match heap s with
  | None => True
  | Some h => exists h', heap s' = Some h' /\ buf_mono h h'
  end /\
  allocs s' = allocs s.

Lemma Mono_refl s : Mono s s.
Proof.
  unfold Mono, buf_mono. repeat split; try lia; auto.
  destruct (heap s) as [h|]; [exists h; repeat split; auto; lia | exact I].
Qed.

Lemma Mono_trans a b c : Mono a b -> Mono b c -> Mono a c.
Proof.
  unfold Mono, buf_mono. intros (Hs1 & Hh1 & Ha1) (Hs2 & Hh2 & Ha2).
  split; [|split].
  - destruct Hs1, Hs2. split; [lia | auto].
  - destruct (heap a) as [h|]; [|exact I].
    destruct Hh1 as (h' & E' & M1 & P1). rewrite E' in Hh2.
    destruct Hh2 as (h'' & E'' & M2 & P2). exists h''. repeat split; [exact E''|lia|auto].
  - congruence.
Qed.

Lemma buf_push_spec c b size align b' r :
  buf_inv c b -> buf_push b size align = (b', r) ->
  buf_inv c b' /\ ptr_set b' = true /\ pos b <= pos b' /\
  match r with
  | Some o => pos b <= o /\ o + size = pos b'
  | None => pos b' = pos b
  end.
Proof.
  unfold buf_inv, buf_push. intros (Hc & Hp).
  destruct (N.leb_spec (pad_for (pos b) align + size) (cap b - pos b)) as [Hle|Hgt];
    intros E; injection E as <- <-; cbn [cap pos ptr_set]; repeat split; try lia.
Qed.

(** What the serializer knows about a block it holds, relative to the state right
    after it obtained it. *)
Definition holds (s0 s1 : scratch) (h : handle) (size align : N) : Prop :=
  match h with
  | HStack o => pos (stack s0) <= o /\ o + size <= pos (stack s1)
  | HHeap o =>
    exists hp, heap s1 = Some hp /\ ptr_set hp = true /\ o + size <= pos hp /\
      match heap s0 with Some h0 => pos h0 <= o | None => True end
  | HAlloc i =>
    exists hp, heap s1 = Some hp /\ ptr_set hp = true /\ allocs s1 = (i, size, align) :: allocs s0
  end.

Lemma lazy_push_spec s size align s1 h :
  Inv s -> lazy_push s size align = (s1, h) ->
  Inv s1 /\ ptr_set (stack s1) = true /\ buf_mono (stack s) (stack s1) /\
  match heap s with None => True | Some h0 => exists h', heap s1 = Some h' /\ buf_mono h0 h' end /\
  holds s s1 h size align /\
  match h with HAlloc _ => True | _ => allocs s1 = allocs s end.
Proof.
  intros (Hst & Hhp). unfold lazy_push.
  destruct (buf_push (stack s) size align) as [st r] eqn:E1.
  destruct (buf_push_spec _ _ _ _ _ _ Hst E1) as (Ist & Pst & Mst & Rst).
  destruct r as [o|].
  - intros E; injection E as <- <-. unfold Inv. cbn [stack heap allocs holds].
    split; [split; assumption|]. split; [assumption|].
    split; [split; [lia|intros _; exact Pst]|].
    split; [destruct (heap s) as [h0|]; [exists h0; split; [reflexivity|split; [lia|auto]]|exact I]|].
    split; [split; lia|reflexivity].
  - assert (Hnew : buf_inv HEAP_SCRATCH_SIZE (heap_or_new s)).
    { unfold heap_or_new. destruct (heap s); [exact Hhp|]. unfold buf_inv, new_buf; cbn. unfold HEAP_SCRATCH_SIZE. lia. }
    destruct (buf_push (heap_or_new s) size align) as [hp r2] eqn:E2.
    destruct (buf_push_spec _ _ _ _ _ _ Hnew E2) as (Ihp & Php & Mhp & Rhp).
    assert (Hheapmono : match heap s with None => True | Some h0 => exists h', Some hp = Some h' /\ buf_mono h0 h' end).
    { destruct (heap s) as [h0|] eqn:Eh; [|exact I]. exists hp. split; [reflexivity|].
      unfold heap_or_new in Mhp. rewrite Eh in Mhp. split; [lia|intros _; exact Php]. }
    destruct r2 as [o|]; intros E; injection E as <- <-; unfold Inv; cbn [stack heap allocs holds].
    + split; [split; assumption|]. split; [assumption|].
      split; [split; [lia|intros _; exact Pst]|].
      split; [exact Hheapmono|].
      split; [|reflexivity].
      exists hp. split; [reflexivity|]. split; [assumption|]. split; [lia|].
      destruct (heap s) as [h0|] eqn:Eh; [|exact I]. unfold heap_or_new in Rhp. rewrite Eh in Rhp. lia.
    + split; [split; assumption|]. split; [assumption|].
      split; [split; [lia|intros _; exact Pst]|].
      split; [exact Hheapmono|].
      split; [|exact I].
      exists hp. split; [reflexivity|]. split; [assumption|reflexivity].
Qed.

Lemma lazy_pop_spec s0 s1 s2 h size align :
  Inv s2 -> 1 <= size -> ptr_set (stack s1) = true ->
  holds s0 s1 h size align -> Mono s1 s2 ->
  buf_mono (stack s0) (stack s1) ->
  match heap s0 with None => True | Some h0 => exists h', heap s1 = Some h' /\ buf_mono h0 h' end ->
  match h with HAlloc _ => True | _ => allocs s1 = allocs s0 end ->
  exists s3, lazy_pop s2 h size align = ROk s3 /\ Inv s3 /\ Mono s0 s3 /\ ptr_set (stack s3) = true.
Proof.
  intros ((Hc2 & Hp2) & Hh2) Hsz Pst Hh ((Mp & Mq) & Mh & Ma) (M0p & M0q) M0h Hal.
  assert (Pst2 : ptr_set (stack s2) = true) by auto.
  unfold lazy_pop.
  destruct h as [o|o|i]; cbn [in_stack in_heap holds] in *.
  - (* stack *)
    destruct Hh as (Ho & Hos).
    unfold buf_pop. rewrite Pst2.
    assert (o <? cap (stack s2) = true) as -> by (apply N.ltb_lt; unfold STACK_SCRATCH_SIZE in *; lia).
    assert (o + size <=? pos (stack s2) = true) as -> by (apply N.leb_le; lia).
    eexists; split; [reflexivity|].
    unfold Inv, Mono, buf_mono, buf_inv. cbn [stack heap allocs cap pos ptr_set].
    split; [split; [split; [assumption|unfold STACK_SCRATCH_SIZE in *; lia]|exact Hh2]|].
    split; [|reflexivity].
    split; [split; [lia|intros _; reflexivity]|]. split; [|rewrite Ma; exact Hal].
    destruct (heap s0) as [h0|]; [|exact I].
    destruct M0h as (h1 & E1 & Mb1 & Mb1'). rewrite E1 in Mh.
    destruct Mh as (h2' & E2 & Mb2 & Mb2'). exists h2'.
    split; [exact E2|]. split; [lia|auto].
  - (* heap *)
    destruct Hh as (hp1 & E1 & P1 & Hos & Ho).
    rewrite E1 in Mh. destruct Mh as (hp2 & E2 & Mb & Mb').
    unfold buf_pop at 1. rewrite Pst2.
    unfold heap_or_new. rewrite E2. rewrite E2 in Hh2. destruct Hh2 as (Hc & Hp).
    unfold buf_pop. rewrite (Mb' P1).
    assert (o <? cap hp2 = true) as -> by (apply N.ltb_lt; unfold HEAP_SCRATCH_SIZE in *; lia).
    assert (o + size <=? pos hp2 = true) as -> by (apply N.leb_le; lia).
    eexists; split; [reflexivity|].
    unfold Inv, Mono, buf_mono, buf_inv. cbn [stack heap allocs cap pos ptr_set].
    split; [split; [split; assumption|split; [assumption|unfold HEAP_SCRATCH_SIZE in *; lia]]|].
    split; [|exact Pst2].
    split; [split; [lia|auto]|]. split; [|rewrite Ma; exact Hal].
    destruct (heap s0) as [h0|]; [|exact I].
    eexists; split; [reflexivity|]. cbn [pos ptr_set]. split; [exact Ho|intros _; reflexivity].
  - (* alloc *)
    destruct Hh as (hp1 & E1 & P1 & Hal1).
    rewrite E1 in Mh. destruct Mh as (hp2 & E2 & Mb & Mb').
    unfold buf_pop at 1. rewrite Pst2.
    unfold heap_or_new. rewrite E2.
    unfold buf_pop. rewrite (Mb' P1).
    unfold alloc_pop. rewrite Ma, Hal1. rewrite !N.eqb_refl. cbn [andb].
    eexists; split; [reflexivity|].
    unfold Inv, Mono, buf_mono, buf_inv. cbn [stack heap allocs cap pos ptr_set].
    rewrite E2 in Hh2.
    split; [split; [split; assumption|exact Hh2]|].
    split; [|exact Pst2].
    split; [split; [lia|auto]|]. split; [|reflexivity].
    destruct (heap s0) as [h0|]; [|exact I].
    destruct M0h as (h1 & E1' & Mb1 & Mb1'). rewrite E1 in E1'. injection E1' as <-.
    exists hp2. split; [reflexivity|]. split; [lia|auto].
Qed.

(** Induction over sessions (the children are a nested list). *)
Section session_ind.
  Context (P : session -> Prop).
  Hypothesis H : forall size align children, Forall P children -> P (Node size align children).
  Fixpoint session_ind' (t : session) : P t :=
    match t with
    | Node size align children =>
      H size align children
        ((fix go (l : list session) : Forall P l :=
            match l with
            | [] => Forall_nil P
            | c :: l' => Forall_cons c (session_ind' c) (go l')
            end) children)
    end.
End session_ind.

Definition session_ok (t : session) : Prop :=
  wf_session t = true -> forall s, Inv s ->
  exists s', run_session lazy_pop t s = ROk s' /\ Inv s' /\ Mono s s' /\ ptr_set (stack s') = true.

Lemma run_list_ok children :
  Forall session_ok children -> forallb wf_session children = true ->
  forall s, Inv s -> ptr_set (stack s) = true ->
  exists s', run_sessions lazy_pop children s = ROk s' /\ Inv s' /\ Mono s s' /\ ptr_set (stack s') = true.
Proof.
  induction 1 as [|c l Hc Hl IH]; cbn [forallb run_sessions]; intros Hwf s Hi Hp.
  - exists s. split; [reflexivity|]. split; [exact Hi|]. split; [apply Mono_refl|exact Hp].
  - apply andb_true_iff in Hwf as (Hw1 & Hw2).
    destruct (Hc Hw1 s Hi) as (s1 & E1 & I1 & M1 & P1). rewrite E1.
    destruct (IH Hw2 s1 I1 P1) as (s2 & E2 & I2 & M2 & P2).
    exists s2. split; [exact E2|]. split; [exact I2|]. split; [eapply Mono_trans; eassumption|exact P2].
Qed.

Lemma run_session_unfold t s :
  run_session lazy_pop t s =
  match t with
  | Node size align children =>
    let (s1, h) := lazy_push s size align in
    match run_sessions lazy_pop children s1 with
    | ROk s2 => lazy_pop s2 h size align
    | r => r
    end
  end.
Proof.
  destruct t as [size align children]. cbn [run_session].
  destruct (lazy_push s size align) as [s1 h].
  assert (E : forall l s,
    (fix run_list (l : list session) (s : scratch) : result :=
       match l with
       | [] => ROk s
       | t :: l' => match run_session lazy_pop t s with ROk s' => run_list l' s' | r => r end
       end) l s = run_sessions lazy_pop l s).
  { induction l as [|c l IH]; intros s0; cbn [run_sessions]; [reflexivity|].
    destruct (run_session lazy_pop c s0); auto. }
  rewrite E. reflexivity.
Qed.

Lemma session_ok_all t : session_ok t.
Proof.
  induction t as [size align children IH] using session_ind'.
  unfold session_ok. intros Hwf s Hi. cbn [wf_session] in Hwf.
  apply andb_true_iff in Hwf as (Hv & Hch).
  rewrite run_session_unfold.
  destruct (lazy_push s size align) as [s1 h] eqn:Ep.
  destruct (lazy_push_spec _ _ _ _ _ Hi Ep) as (I1 & P1 & Mst & Mhp & Hh & Hal).
  destruct (run_list_ok children IH Hch s1 I1 P1) as (s2 & E2 & I2 & M2 & P2).
  rewrite E2.
  assert (Hsz : 1 <= size).
  { unfold valid_layout in Hv. apply andb_true_iff in Hv as (Hv & _). apply N.leb_le in Hv. exact Hv. }
  destruct (lazy_pop_spec s s1 s2 h size align I2 Hsz P1 Hh M2 Mst Mhp Hal) as (s3 & E3 & I3 & M3 & P3).
  exists s3. auto.
Qed.

Lemma Inv_init : Inv init.
Proof. unfold Inv, init, buf_inv, new_buf, STACK_SCRATCH_SIZE. cbn. repeat split; lia. Qed.

(** Every forest of well-formed sessions runs to the end on a fresh scratch space: no
    request and no release is refused, nothing panics, nothing stays allocated. *)
Lemma forest_never_refused forest :
  forallb wf_session forest = true ->
  exists s', run_sessions lazy_pop forest init = ROk s' /\ allocs s' = [] /\ Inv s'.
Proof.
  intros Hwf.
  destruct forest as [|t l].
  - exists init. split; [reflexivity|]. split; [reflexivity|apply Inv_init].
  - cbn [forallb] in Hwf. apply andb_true_iff in Hwf as (H1 & H2). cbn [run_sessions].
    destruct (session_ok_all t H1 init Inv_init) as (s1 & E1 & I1 & M1 & P1). rewrite E1.
    assert (Hall : Forall session_ok l) by (apply Forall_forall; intros; apply session_ok_all).
    destruct (run_list_ok l Hall H2 s1 I1 P1) as (s2 & E2 & I2 & M2 & P2).
    exists s2. split; [exact E2|]. split; [|exact I2].
    destruct M1 as (_ & _ & A1). destruct M2 as (_ & _ & A2). rewrite A2, A1. reflexivity.
Qed.

(** From any state the invariant holds in (a scratch space already in use). *)
Lemma session_never_refused t s :
  wf_session t = true -> Inv s ->
  exists s', run_session lazy_pop t s = ROk s' /\ allocs s' = allocs s /\ Inv s'.
Proof.
  intros Hwf Hi. destruct (session_ok_all t Hwf s Hi) as (s' & E & I' & (_ & _ & A) & _).
  exists s'. auto.
Qed.

(** The release that picks its tier by size refuses a well-formed session: an 8-byte
    block, then a 1024-byte block that no longer fits the 1 KiB buffer and goes to the
    second tier, where a release of at most 1 KiB never looks. *)
Definition by_size_witness : session := Node 8 8 [Node 1024 8 []].

Lemma pop_by_size_refuses :
  wf_session by_size_witness = true /\
  (exists s', run_session lazy_pop_by_size by_size_witness init = RErr s') /\
  (exists s', run_session lazy_pop by_size_witness init = ROk s').
Proof. split; [reflexivity|]. split; eexists; vm_compute; reflexivity. Qed.
