// shared helpers of the hx-selector executors
