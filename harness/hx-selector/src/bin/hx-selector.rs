//! hx-selector: implementation executor for C15 (replica selection).
//!
//! Runs `datacake_node::DCAwareSelector` (through the public `NodeSelector` trait, on one
//! map of `NodeCycler`s per history so that cursors persist) and the selector actor
//! (`start_node_selector` / `set_nodes` / `get_nodes`) from /repo's working tree on
//! generated cases, writes `<dir>/selector.cases` + `<dir>/selector.impl` for the comparison
//! with the extracted Coq model and evaluates the property's own predicate on the
//! implementation's answers (`<dir>/selector.fail`).
//!
//! Case syntax (hex numbers):
//!   h <local> <local_dc> LAYOUT <nsteps> { <level> <total_nodes> HINT }*
//!   a <local> <local_dc> <nops> { s LAYOUT | w LAYOUT | g <level> HINT | x <level> }*
//!     (`w LAYOUT`: the membership is handed, as a snapshot, to the real membership watcher
//!      `watch_membership_changes`, which computes the layout for the selector itself)
//!   LAYOUT = <ndcs> { <name> <nnodes> <addr>* }*      HINT = - | ! | <k> <addr>*k
//! HINT repeats the implementation's answer; the model driver uses it only to recover the
//! random `choose_multiple` result (see ocaml/selector/modelrun.ml).  With `--replay` the
//! hints of the file are ignored and written afresh.

use std::borrow::Cow;
use std::collections::{BTreeMap, BTreeSet};
use std::net::{IpAddr, Ipv4Addr, SocketAddr};
use std::time::{Duration, Instant};

use datacake_node::verif::{
    run_membership_watcher,
    set_nodes,
    start_node_selector,
    NodeCycler,
    NodeMembership,
};
use datacake_node::{
    ClusterMember,
    ClusterStatistics,
    Consistency,
    ConsistencyError,
    DCAwareSelector,
    MembershipChange,
    NodeSelector,
    Nodes,
    RpcNetwork,
};
use tokio::sync::watch;
use tokio_stream::wrappers::WatchStream;
use hxcommon::{no_panic, quiet_panics, Args, CaseWriter, Rng};

type Layout = Vec<(u64, Vec<u64>)>; // ascending data-centre names (a BTreeMap)

const LEVELS: [(Consistency, &str); 8] = [
    (Consistency::None, "none"),
    (Consistency::One, "one"),
    (Consistency::Two, "two"),
    (Consistency::Three, "three"),
    (Consistency::Quorum, "quorum"),
    (Consistency::LocalQuorum, "localquorum"),
    (Consistency::All, "all"),
    (Consistency::EachQuorum, "eachquorum"),
];
const QUORUM: usize = 4;
const LOCAL_QUORUM: usize = 5;
const ALL: usize = 6;
const EACH_QUORUM: usize = 7;

fn level_index(name: &str) -> usize {
    LEVELS.iter().position(|(_, n)| *n == name).expect("level name")
}

fn addr(a: u64) -> SocketAddr {
    SocketAddr::new(
        IpAddr::V4(Ipv4Addr::new(10, (a >> 16) as u8, (a >> 8) as u8, a as u8)),
        80,
    )
}

fn unaddr(s: &SocketAddr) -> u64 {
    match s.ip() {
        IpAddr::V4(ip) => {
            let o = ip.octets();
            ((o[1] as u64) << 16) | ((o[2] as u64) << 8) | o[3] as u64
        },
        _ => u64::MAX,
    }
}

/// Names are one hex digit so that the BTreeMap's string order is the numeric order.
fn dc_name(d: u64) -> Cow<'static, str> {
    assert!(d < 16);
    Cow::Owned(format!("dc-{:x}", d))
}

#[derive(Clone, Debug, PartialEq)]
enum Out {
    Ok(Vec<u64>),
    Err(usize, usize),
    Panic,
}

impl Out {
    fn of(r: Option<Result<Nodes, ConsistencyError>>) -> Out {
        match r {
            None => Out::Panic,
            Some(Ok(nodes)) => Out::Ok(nodes.iter().map(unaddr).collect()),
            Some(Err(ConsistencyError::NotEnoughNodes { live, required })) => {
                Out::Err(live, required)
            },
            Some(Err(_)) => Out::Panic, // the selector has no other error
        }
    }
    fn show(&self) -> String {
        match self {
            Out::Ok(v) => {
                let mut s = String::from("ok");
                for a in v {
                    s.push_str(&format!(" {:x}", a));
                }
                s
            },
            Out::Err(l, r) => format!("err {:x} {:x}", l, r),
            Out::Panic => "panic".into(),
        }
    }
    fn hint(&self) -> String {
        match self {
            Out::Ok(v) => {
                let mut s = format!("{:x}", v.len());
                for a in v {
                    s.push_str(&format!(" {:x}", a));
                }
                s
            },
            Out::Err(..) => "-".into(),
            Out::Panic => "!".into(),
        }
    }
}

fn show_layout(l: &Layout) -> String {
    let mut s = format!("{:x}", l.len());
    for (name, nodes) in l {
        s.push_str(&format!(" {:x} {:x}", name, nodes.len()));
        for a in nodes {
            s.push_str(&format!(" {:x}", a));
        }
    }
    s
}

fn nodes_of(ns: &[u64]) -> Nodes {
    ns.iter().map(|a| addr(*a)).collect()
}

// ------------------------------------------------------------------ the property

/// The property's own predicate, evaluated on one answer of the implementation.
/// `lay` is the membership the selector was last given.  The clauses about *how many*
/// nodes are selected need the standing premises (the local node is a member, listed under
/// its own data centre, and `total_nodes` is the number of members); the clauses about
/// *which* nodes may be selected need nothing.
fn oracle(
    w: &mut CaseWriter,
    case: &str,
    step: usize,
    local: u64,
    local_dc: u64,
    lay: &Layout,
    total: usize,
    lv: usize,
    out: &Out,
) {
    let all: Vec<u64> = lay.iter().flat_map(|(_, ns)| ns.iter().copied()).collect();
    let members: BTreeSet<u64> = all.iter().copied().collect();
    let n_others = all.iter().filter(|a| **a != local).count();
    let listed = lay.iter().any(|(d, ns)| *d == local_dc && ns.contains(&local));
    let premises = listed && total == all.len() && members.len() == all.len();
    let local_len = lay
        .iter()
        .find(|(d, _)| *d == local_dc)
        .map(|(_, ns)| ns.len())
        .unwrap_or(0);
    let required = match lv {
        0 => 0,
        1 | 2 | 3 => lv,
        QUORUM => all.len() / 2,
        LOCAL_QUORUM => local_len / 2,
        ALL => n_others,
        EACH_QUORUM => lay
            .iter()
            .map(|(d, ns)| {
                if *d == local_dc {
                    ns.len() / 2
                } else {
                    std::cmp::min(ns.len(), ns.len() / 2 + 1)
                }
            })
            .sum(),
        _ => unreachable!(),
    };
    let det = |x: &str| format!("step {} level {}: {} (answer: {})", step, LEVELS[lv].1, x, out.show());
    match out {
        Out::Panic => w.fail("panic", case, &det("the selector panicked")),
        Out::Ok(sel) => {
            let set: BTreeSet<u64> = sel.iter().copied().collect();
            if set.len() != sel.len() {
                w.fail("duplicate-selected", case, &det("a node is selected twice"));
            }
            if sel.contains(&local) {
                w.fail("local-selected", case, &det("the local node is selected"));
            }
            if let Some(a) = sel.iter().find(|a| !members.contains(a)) {
                w.fail(
                    "non-member-selected",
                    case,
                    &det(&format!("node {:x} is not in the current membership", a)),
                );
            }
            if premises {
                if sel.len() < required {
                    w.fail("too-few-selected", case, &det(&format!("level requires {}", required)));
                }
                if (1..=3).contains(&lv) && sel.len() != lv {
                    w.fail("not-exactly-n", case, &det("One/Two/Three must select exactly n"));
                }
            }
        },
        Out::Err(..) => {
            if premises && n_others >= required {
                w.fail(
                    "spurious-not-enough-nodes",
                    case,
                    &det(&format!(
                        "{} other live nodes exist, the level requires {}",
                        n_others, required
                    )),
                );
            }
        },
    }
    w.stats.hit(&format!(
        "{}_{}",
        LEVELS[lv].1,
        match out {
            Out::Ok(_) => "ok",
            Out::Err(..) => "err",
            Out::Panic => "panic",
        }
    ));
    if !premises {
        w.stats.hit("answers_outside_premises");
    }
}

// ------------------------------------------------------------- trait histories

#[derive(Clone)]
struct Step {
    lv: usize,
    total: usize,
}

fn do_history(w: &mut CaseWriter, local: u64, local_dc: u64, lay: &Layout, steps: &[Step]) {
    let mut map: BTreeMap<Cow<'static, str>, NodeCycler> = BTreeMap::new();
    for (d, ns) in lay {
        map.insert(dc_name(*d), NodeCycler::from(nodes_of(ns)));
    }
    let name = dc_name(local_dc);
    let mut selector = DCAwareSelector::default();
    let mut outs: Vec<Out> = Vec::with_capacity(steps.len());
    let mut dead = false;
    for s in steps {
        if dead {
            outs.push(Out::Panic);
            continue;
        }
        let r = no_panic(|| {
            selector.select_nodes(addr(local), &name, s.total, &mut map, LEVELS[s.lv].0)
        });
        dead = r.is_none();
        outs.push(Out::of(r));
    }
    let mut case = format!("h {:x} {:x} {} {:x}", local, local_dc, show_layout(lay), steps.len());
    for (s, o) in steps.iter().zip(&outs) {
        case.push_str(&format!(" {} {:x} {}", LEVELS[s.lv].1, s.total, o.hint()));
    }
    let res: Vec<String> = outs.iter().map(|o| o.show()).collect();
    w.case(&case, &res.join(" | "));
    for (i, (s, o)) in steps.iter().zip(&outs).enumerate() {
        oracle(w, &case, i, local, local_dc, lay, s.total, s.lv, o);
    }
    w.stats.hit(&format!("history_len_{}", steps.len()));
}

// ------------------------------------------------------------------- the actor

#[derive(Clone)]
enum AOp {
    Set(Layout),
    /// the membership reaches the selector through the node's membership watcher
    Watch(Layout),
    Get(usize),
    Expire(usize),
}

/// Runs one actor case.  Returns None when the wall clock made a cache hit uncertain
/// (the caller retries).
fn run_actor(
    rt: &tokio::runtime::Runtime,
    local: u64,
    local_dc: u64,
    ops: &[AOp],
) -> Option<Vec<Option<Out>>> {
    let outs = std::cell::RefCell::new(Vec::<Option<Out>>::new());
    let uncertain = std::cell::Cell::new(false);
    let stuck = std::cell::Cell::new(false);
    let done = no_panic(|| {
        rt.block_on(async {
            let handle =
                start_node_selector(addr(local), dc_name(local_dc), DCAwareSelector::default())
                    .await;
            // when each level's cache entry was (at the earliest) created
            let mut cached: [Option<Instant>; 8] = [None; 8];
            // the membership watcher of this node, started on its first snapshot
            let mut snap_tx: Option<watch::Sender<NodeMembership>> = None;
            let (ctx, crx) = watch::channel(MembershipChange::default());
            let mut ctx = Some(ctx);
            let mut probe = crx.clone();
            let mut i = 0;
            while i < ops.len() {
                match &ops[i] {
                    AOp::Set(l) => {
                        let mut m: BTreeMap<Cow<'static, str>, Nodes> = BTreeMap::new();
                        for (d, ns) in l {
                            m.insert(dc_name(*d), nodes_of(ns));
                        }
                        set_nodes(&handle, m).await;
                        cached = [None; 8];
                        outs.borrow_mut().push(None);
                    },
                    AOp::Watch(l) => {
                        let m: NodeMembership = l
                            .iter()
                            .flat_map(|(d, ns)| {
                                ns.iter().map(move |a| {
                                    let id = *a as u8;
                                    (id, ClusterMember::new(id, addr(*a), dc_name(*d).to_string()))
                                })
                            })
                            .collect();
                        match &snap_tx {
                            None => {
                                let (stx, srx) = watch::channel(m);
                                snap_tx = Some(stx);
                                tokio::spawn(run_membership_watcher(
                                    local as u8,
                                    RpcNetwork::default(),
                                    handle.clone(),
                                    ClusterStatistics::default(),
                                    WatchStream::new(srx),
                                    ctx.take().unwrap(),
                                ));
                            },
                            Some(stx) => {
                                let _ = stx.send(m);
                            },
                        }
                        // let the watcher run until it has handled the snapshot
                        let mut n = 0;
                        loop {
                            tokio::task::yield_now().await;
                            if probe.has_changed().unwrap_or(false) {
                                probe.borrow_and_update();
                                break;
                            }
                            n += 1;
                            if n > 500 {
                                stuck.set(true);
                                break;
                            }
                        }
                        cached = [None; 8];
                        outs.borrow_mut().push(None);
                    },
                    AOp::Get(lv) => {
                        let before = Instant::now();
                        let r = handle.get_nodes(LEVELS[*lv].0).await;
                        let o = Out::of(Some(r));
                        if let Some(t) = cached[*lv] {
                            // the model says: served from the cache.  True when less than
                            // 2 s passed since the entry was made (it was made after `t`).
                            if t.elapsed() >= Duration::from_millis(1900) {
                                uncertain.set(true);
                            }
                        } else if matches!(o, Out::Ok(_)) {
                            cached[*lv] = Some(before);
                        }
                        outs.borrow_mut().push(Some(o));
                    },
                    AOp::Expire(_) => {
                        // a run of Expire ops = one real pause longer than the cache timeout
                        tokio::time::sleep(Duration::from_millis(2100)).await;
                        while i < ops.len() && matches!(ops[i], AOp::Expire(_)) {
                            outs.borrow_mut().push(None);
                            i += 1;
                        }
                        cached = [None; 8];
                        continue;
                    },
                }
                i += 1;
            }
        })
    });
    let mut outs = outs.into_inner();
    if done.is_none() {
        // the actor (or the call into it) panicked: the rest of the case is lost
        while outs.len() < ops.len() {
            outs.push(match ops[outs.len()] {
                AOp::Get(_) => Some(Out::Panic),
                _ => None,
            });
        }
    }
    if stuck.get() {
        // the watcher never handled a snapshot: every later answer is about a stale layout
        WATCHER_STUCK.with(|c| c.set(true));
    }
    if uncertain.get() {
        None
    } else {
        Some(outs)
    }
}

thread_local! {
    static WATCHER_STUCK: std::cell::Cell<bool> = std::cell::Cell::new(false);
}

fn do_actor(
    w: &mut CaseWriter,
    rt: &tokio::runtime::Runtime,
    local: u64,
    local_dc: u64,
    ops: &[AOp],
) {
    let mut outs = None;
    for _ in 0..5 {
        outs = run_actor(rt, local, local_dc, ops);
        if outs.is_some() {
            break;
        }
        w.stats.hit("actor_case_retried_for_timing");
    }
    let outs = match outs {
        Some(o) => o,
        None => return, // the machine is too slow to decide cache hits; nothing is claimed
    };
    let mut case = format!("a {:x} {:x} {:x}", local, local_dc, ops.len());
    for (op, o) in ops.iter().zip(&outs) {
        match op {
            AOp::Set(l) => case.push_str(&format!(" s {}", show_layout(l))),
            AOp::Watch(l) => case.push_str(&format!(" w {}", show_layout(l))),
            AOp::Get(lv) => {
                case.push_str(&format!(" g {} {}", LEVELS[*lv].1, o.as_ref().unwrap().hint()))
            },
            AOp::Expire(lv) => case.push_str(&format!(" x {}", LEVELS[*lv].1)),
        }
    }
    let res: Vec<String> = outs
        .iter()
        .map(|o| o.as_ref().map(|o| o.show()).unwrap_or_else(|| "-".into()))
        .collect();
    w.case(&case, &res.join(" | "));
    if WATCHER_STUCK.with(|c| c.replace(false)) {
        w.fail("watcher-ignores-snapshot", &case, "the membership watcher did not handle a snapshot it was handed");
    }
    let empty: Layout = Vec::new();
    let mut cur: &Layout = &empty;
    let mut nsets = 0;
    let mut seen: [bool; 8] = [false; 8];
    for (i, (op, o)) in ops.iter().zip(&outs).enumerate() {
        match op {
            AOp::Set(l) | AOp::Watch(l) => {
                cur = l;
                nsets += 1;
                seen = [false; 8];
                if matches!(op, AOp::Watch(_)) {
                    w.stats.hit("actor_layout_through_watcher");
                }
            },
            AOp::Get(lv) => {
                let total = cur.iter().map(|(_, ns)| ns.len()).sum();
                let o = o.as_ref().unwrap();
                oracle(w, &case, i, local, local_dc, cur, total, *lv, o);
                if seen[*lv] {
                    w.stats.hit("actor_get_served_from_cache");
                }
                if matches!(o, Out::Ok(_)) {
                    seen[*lv] = true;
                }
                if nsets >= 2 {
                    w.stats.hit("actor_get_after_membership_update");
                }
            },
            AOp::Expire(_) => seen = [false; 8],
        }
    }
}

// ------------------------------------------------------------------ generators

/// Every vector of `k` sizes in lo..=hi.
fn size_vectors(k: usize, lo: usize, hi: usize) -> Vec<Vec<usize>> {
    let mut out = vec![vec![]];
    for _ in 0..k {
        let mut next = Vec::new();
        for v in &out {
            for s in lo..=hi {
                let mut v2 = v.clone();
                v2.push(s);
                next.push(v2);
            }
        }
        out = next;
    }
    out
}

fn layout_of_sizes(sizes: &[usize]) -> Layout {
    sizes
        .iter()
        .enumerate()
        .map(|(d, s)| (d as u64, (0..*s).map(|i| (d * 16 + i) as u64).collect()))
        .collect()
}

fn total_of(l: &Layout) -> usize {
    l.iter().map(|(_, ns)| ns.len()).sum()
}

/// All histories of exactly `len` levels.
fn histories(len: usize) -> Vec<Vec<usize>> {
    let mut out = vec![vec![]];
    for _ in 0..len {
        let mut next = Vec::new();
        for v in &out {
            for lv in 0..8 {
                let mut v2 = v.clone();
                v2.push(lv);
                next.push(v2);
            }
        }
        out = next;
    }
    out
}

/// Bounded-exhaustive: layouts of <= 3 DCs x 1..3 nodes and 4 DCs x 1..2 nodes, every local
/// position, every history of three selections (shorter histories are their prefixes).
fn gen_trait_exhaustive(w: &mut CaseWriter) {
    let hs = histories(3);
    let mut layouts = Vec::new();
    for k in 1..=3 {
        layouts.extend(size_vectors(k, 1, 3));
    }
    layouts.extend(size_vectors(4, 1, 2));
    for sizes in &layouts {
        let lay = layout_of_sizes(sizes);
        let total = total_of(&lay);
        for (d, ns) in &lay {
            for a in ns {
                for h in &hs {
                    let steps: Vec<Step> = h.iter().map(|lv| Step { lv: *lv, total }).collect();
                    do_history(w, *a, *d, &lay, &steps);
                }
            }
        }
        w.stats.hit("exhaustive_layouts");
    }
}

/// Bounded-exhaustive outside the premises: empty data centres, a local node that is not a
/// member or is listed under another data centre, an unknown local data centre.
fn gen_trait_odd(w: &mut CaseWriter) {
    let hs = histories(2);
    for k in 1..=3 {
        for sizes in size_vectors(k, 0, 2) {
            let lay = layout_of_sizes(&sizes);
            let total = total_of(&lay);
            let mut locals: Vec<u64> = lay.iter().flat_map(|(_, ns)| ns.iter().copied()).collect();
            locals.push(0xff);
            let mut dcs: Vec<u64> = lay.iter().map(|(d, _)| *d).collect();
            dcs.push(0xf);
            for local in &locals {
                for ldc in &dcs {
                    for h in &hs {
                        let steps: Vec<Step> =
                            h.iter().map(|lv| Step { lv: *lv, total }).collect();
                        do_history(w, *local, *ldc, &lay, &steps);
                    }
                }
            }
            w.stats.hit("odd_layouts");
        }
    }
}

fn random_layout(rng: &mut Rng, max_dcs: u64, max_nodes: u64, allow_empty: bool) -> Layout {
    let k = 1 + rng.below(max_dcs);
    let mut names: Vec<u64> = (0..15).collect();
    rng.shuffle(&mut names);
    let mut names: Vec<u64> = names[..k as usize].to_vec();
    names.sort();
    let mut next = 0x100 + rng.below(4) * 0x100;
    names
        .iter()
        .map(|d| {
            let lo = if allow_empty && rng.chance(1, 8) { 0 } else { 1 };
            let n = lo + rng.below(max_nodes + 1 - lo);
            let ns = (0..n)
                .map(|_| {
                    next += 1 + rng.below(3);
                    next
                })
                .collect();
            (*d, ns)
        })
        .collect()
}

fn gen_trait_random(w: &mut CaseWriter, rng: &mut Rng, count: u64) {
    for _ in 0..count {
        let odd = rng.chance(1, 6);
        let lay = random_layout(rng, 6, 6, odd);
        let total = total_of(&lay);
        let members: Vec<(u64, u64)> =
            lay.iter().flat_map(|(d, ns)| ns.iter().map(|a| (*d, *a))).collect();
        let (mut ldc, mut local) = if members.is_empty() {
            (lay[0].0, 0xfffe)
        } else {
            *rng.pick(&members)
        };
        if odd && rng.chance(1, 3) {
            local = 0xfffe; // not a member
        }
        if odd && rng.chance(1, 3) {
            ldc = if rng.chance(1, 2) { 0xf } else { rng.pick(&lay).0 };
        }
        let local_len = lay.iter().find(|(d, _)| *d == ldc).map(|(_, ns)| ns.len()).unwrap_or(0);
        let len = 1 + rng.below(8);
        let steps: Vec<Step> = (0..len)
            .map(|_| {
                // One/Two/Three are the levels with state: over-represented
                let lv = if rng.chance(2, 3) { 1 + rng.below(3) as usize } else { rng.below(8) as usize };
                let t = if odd && rng.chance(1, 4) {
                    // a caller-supplied total that is not the member count (never below
                    // the local DC's size: the code subtracts it from the total)
                    local_len + rng.below(8) as usize
                } else {
                    total
                };
                Step { lv, total: t }
            })
            .collect();
        do_history(w, local, ldc, &lay, &steps);
        w.stats.hit(if odd { "random_history_outside_premises" } else { "random_history" });
    }
}

/// Actor, bounded-exhaustive: data centres 0..2 each absent or with 1 or 2 nodes (27
/// layouts), every ordered pair (before, after) of them, two local positions: install the
/// first, query every level (and One once more: cache), install the second, query again.
fn gen_actor_exhaustive(w: &mut CaseWriter, rt: &tokio::runtime::Runtime) {
    let mut layouts: Vec<Layout> = Vec::new();
    for sizes in size_vectors(3, 0, 2) {
        layouts.push(layout_of_sizes(&sizes).into_iter().filter(|(_, ns)| !ns.is_empty()).collect());
    }
    for (local, ldc) in [(0u64, 0u64), (0x11, 1)] {
        for l1 in &layouts {
            for l2 in &layouts {
                let mut ops = vec![AOp::Set(l1.clone())];
                ops.extend((0..8).map(AOp::Get));
                ops.push(AOp::Get(1));
                ops.push(AOp::Get(2));
                ops.push(AOp::Set(l2.clone()));
                ops.extend((0..8).rev().map(AOp::Get));
                do_actor(w, rt, local, ldc, &ops);
                w.stats.hit("actor_exhaustive_pairs");
            }
        }
    }
}

/// The membership reaches the selector the way it does in a running node: through
/// `watch_membership_changes`.  Layouts of 1..3 data centres x 1..4 nodes, every local
/// position, every level, then a second snapshot (one node more or fewer) and every level
/// again: the selection must be right for the membership of the last snapshot.
fn gen_actor_watcher(w: &mut CaseWriter, rt: &tokio::runtime::Runtime, thorough: bool) {
    let mut layouts = Vec::new();
    for k in 1..=3 {
        layouts.extend(size_vectors(k, 1, if k == 3 && !thorough { 2 } else { 4 }));
    }
    for sizes in &layouts {
        let lay = layout_of_sizes(sizes);
        let mut bigger = sizes.clone();
        *bigger.last_mut().unwrap() += 1;
        let lay2 = layout_of_sizes(&bigger);
        for (d, ns) in &lay {
            for a in ns {
                let mut ops = vec![AOp::Watch(lay.clone())];
                ops.extend((0..8).map(AOp::Get));
                ops.push(AOp::Watch(lay2.clone()));
                ops.extend((0..8).rev().map(AOp::Get));
                ops.push(AOp::Watch(lay.clone()));
                ops.extend([4, 5, 7, 6].map(AOp::Get));
                // a member is re-labelled: same id, same address, another data centre (a node is listed
                // under a default data centre until its own label has been gossiped)
                if lay.len() >= 2 {
                    let mut relabelled = lay.clone();
                    let (from, to) = if relabelled[0].0 == *d { (1, 0) } else { (0, 1) };
                    if let Some(x) = relabelled[from].1.iter().copied().find(|x| *x != *a) {
                        relabelled[from].1.retain(|y| *y != x);
                        relabelled[to].1.push(x);
                        // the watcher lists the members of a data centre in node-id order
                        relabelled[to].1.sort_by_key(|y| *y as u8);
                        relabelled.retain(|(_, ns)| !ns.is_empty());
                        ops.push(AOp::Watch(relabelled));
                        ops.extend([5, 7, 4, 6].map(AOp::Get));
                    }
                }
                // a member comes back under another address with the same node id (ids are the low
                // byte of the address): the selector must hand out the new address only
                let mut moved = lay.clone();
                'mv: for (_, nodes) in moved.iter_mut() {
                    for x in nodes.iter_mut() {
                        if *x != *a {
                            *x += 0x100;
                            break 'mv;
                        }
                    }
                }
                if moved != lay {
                    ops.push(AOp::Watch(moved));
                    ops.extend([6, 4, 1].map(AOp::Get));
                }
                do_actor(w, rt, *a, *d, &ops);
                w.stats.hit("actor_watcher_sequences");
            }
        }
    }
}

fn gen_actor_random(w: &mut CaseWriter, rt: &tokio::runtime::Runtime, rng: &mut Rng, count: u64) {
    for _ in 0..count {
        // a universe of 4 data centres x 4 addresses; a layout picks a subset; sometimes a
        // node shows up under another data centre than before
        let gen_layout = |rng: &mut Rng| -> Layout {
            let mut l: Layout = Vec::new();
            let mut used = BTreeSet::new();
            for d in 0..4u64 {
                if rng.chance(1, 4) {
                    continue;
                }
                let mut ns = Vec::new();
                for i in 0..4u64 {
                    if rng.chance(1, 2) {
                        let home = if rng.chance(1, 10) { rng.below(4) } else { d };
                        let a = home * 16 + i;
                        if used.insert(a) {
                            ns.push(a);
                        }
                    }
                }
                if !ns.is_empty() {
                    l.push((d, ns));
                }
            }
            l
        };
        let ldc = rng.below(4);
        let local = ldc * 16 + rng.below(4);
        let mut ops = Vec::new();
        let nops = 3 + rng.below(14);
        ops.push(AOp::Set(gen_layout(rng)));
        for _ in 0..nops {
            if rng.chance(1, 4) {
                ops.push(AOp::Set(gen_layout(rng)));
            } else {
                let lv = if rng.chance(1, 2) { 1 + rng.below(3) as usize } else { rng.below(8) as usize };
                ops.push(AOp::Get(lv));
                if rng.chance(1, 4) {
                    ops.push(AOp::Get(lv));
                }
            }
        }
        do_actor(w, rt, local, ldc, &ops);
        w.stats.hit("actor_random_sequences");
    }
}

/// The cache really expires: after a pause longer than two seconds a fresh selection is
/// made (the cursor has moved, so the answer differs from the cached one).
fn gen_actor_expiry(w: &mut CaseWriter, rt: &tokio::runtime::Runtime, count: usize) {
    let lays = [vec![3usize], vec![2, 3], vec![1, 2, 2], vec![4], vec![3, 3]];
    for sizes in lays.iter().take(count) {
        let lay = layout_of_sizes(sizes);
        let mut ops = vec![AOp::Set(lay), AOp::Get(1), AOp::Get(1), AOp::Get(2)];
        ops.extend((0..8).map(AOp::Expire));
        ops.extend([AOp::Get(1), AOp::Get(2), AOp::Get(1)]);
        do_actor(w, rt, 0, 0, &ops);
        w.stats.hit("actor_expiry_cases");
    }
}

// ---------------------------------------------------------------------- replay

struct Toks<'a>(std::str::SplitWhitespace<'a>);
impl<'a> Toks<'a> {
    fn s(&mut self) -> &'a str {
        self.0.next().expect("short case line")
    }
    fn x(&mut self) -> u64 {
        u64::from_str_radix(self.s(), 16).expect("hex number")
    }
    fn layout(&mut self) -> Layout {
        let k = self.x();
        (0..k)
            .map(|_| {
                let name = self.x();
                let n = self.x();
                (name, (0..n).map(|_| self.x()).collect())
            })
            .collect()
    }
    fn skip_hint(&mut self) {
        match self.s() {
            "-" | "!" => {},
            k => {
                for _ in 0..u64::from_str_radix(k, 16).unwrap() {
                    self.s();
                }
            },
        }
    }
}

fn replay_line(w: &mut CaseWriter, rt: &tokio::runtime::Runtime, line: &str) {
    let mut t = Toks(line.split_whitespace());
    match t.0.next() {
        Some("h") => {
            let local = t.x();
            let ldc = t.x();
            let lay = t.layout();
            let n = t.x();
            let steps: Vec<Step> = (0..n)
                .map(|_| {
                    let lv = level_index(t.s());
                    let total = t.x() as usize;
                    t.skip_hint();
                    Step { lv, total }
                })
                .collect();
            do_history(w, local, ldc, &lay, &steps);
        },
        Some("a") => {
            let local = t.x();
            let ldc = t.x();
            let n = t.x();
            let ops: Vec<AOp> = (0..n)
                .map(|_| match t.s() {
                    "s" => AOp::Set(t.layout()),
                    "w" => AOp::Watch(t.layout()),
                    "g" => {
                        let lv = level_index(t.s());
                        t.skip_hint();
                        AOp::Get(lv)
                    },
                    "x" => AOp::Expire(level_index(t.s())),
                    o => panic!("bad op {o}"),
                })
                .collect();
            do_actor(w, rt, local, ldc, &ops);
        },
        _ => {},
    }
}

fn main() {
    let args = Args::parse();
    quiet_panics();
    let rt = tokio::runtime::Builder::new_current_thread().enable_all().build().unwrap();
    let mut w = CaseWriter::new(&args.dir, "selector");
    if let Some(f) = &args.replay {
        let text = std::fs::read_to_string(f).expect("replay file");
        for line in text.lines() {
            replay_line(&mut w, &rt, line.trim());
        }
        w.finish(&[("mode", "\"replay\"".into())]);
        return;
    }
    let mut rng = Rng::new(args.seed);
    gen_trait_exhaustive(&mut w);
    let n_exh = w.n;
    gen_trait_odd(&mut w);
    let n_odd = w.n - n_exh;
    gen_trait_random(&mut w, &mut rng, if args.thorough() { 400_000 } else { 30_000 });
    let n_before_actor = w.n;
    gen_actor_exhaustive(&mut w, &rt);
    let n_actor_exh = w.n - n_before_actor;
    gen_actor_random(&mut w, &rt, &mut rng, if args.thorough() { 60_000 } else { 4_000 });
    gen_actor_watcher(&mut w, &rt, args.thorough());
    gen_actor_expiry(&mut w, &rt, if args.thorough() { 5 } else { 1 });
    let n_actor = w.n - n_before_actor;
    w.finish(&[
        ("mode", "\"generate\"".into()),
        ("trait_exhaustive_histories", n_exh.to_string()),
        ("trait_outside_premises_exhaustive", n_odd.to_string()),
        ("actor_exhaustive_sequences", n_actor_exh.to_string()),
        ("actor_sequences", n_actor.to_string()),
    ]);
}
