//! hx-membership: implementation executor for C16 (membership change events add up).
//!
//! Every case is a *history*: membership snapshots handed one by one to the real
//! `watch_membership_changes` task (through `datacake_node::verif::run_membership_watcher`),
//! a subscription point (a real `DatacakeHandle::membership_changes()` stream, i.e.
//! `WatchStream::new(receiver.clone())`) and the places where the subscriber polls its
//! stream.  The subscriber applies every change it is handed the way the consumers in
//! `datacake-eventual-consistency` do (remove `left` by node id, insert `joined`).
//!
//! Case syntax (numbers are lower-case hex):
//!   `run <self> <ev>...`   ev = `s:<id>.<addr>.<dc>,...` (a snapshot, `s:` = empty) | `sub` | `rd`
//!                          exactly one `sub`; no `rd` before it
//!   `diff <self> s:<prev> s:<new>`   the change published for `new` right after `prev`
//!   `glue <self> <ev>...`            ev = snapshot | `sub`: the store extension's own membership glue
//!                          (`watch_membership_changes` of datacake-eventual-consistency) is started
//!                          at `sub` on the node handle's stream and forwards to the REAL task
//!                          distributor and the REAL repair poller; at the end one mutation is queued
//!                          and every peer holds one document of its own: `recv=[..]` = addresses the
//!                          distributor's batch reached, `polled=[..]` = peers the poller pulled from
//!   `dist <self> s:.. s:.. ...`      every published change is handed, in order, to the real task
//!                          distributor of datacake-eventual-consistency (the consumer of the
//!                          events), then one mutation is queued: which addresses receive the
//!                          batch?  Result `recv=[addr,..]` = the live peers the distributor holds.
//! Result of `run`: one token per poll (`J[..]L[..]` or `-` when pending), the final poll
//! included, then `live=[id.addr,..] late=b coal=b holds=b`.
//!
//! Everything runs on one current-thread runtime; after each snapshot the driver yields
//! until the watcher has published, so the schedule is deterministic.

use std::borrow::Cow;
use std::collections::{BTreeMap, BTreeSet};
use std::net::{IpAddr, Ipv4Addr, SocketAddr};

use datacake_node::verif::{make_handle, run_membership_watcher, start_node_selector, NodeMembership};
use datacake_node::{
    Clock,
    ClusterMember,
    ClusterStatistics,
    DCAwareSelector,
    MembershipChange,
    RpcNetwork,
};
use futures::FutureExt;
use hxcommon::{quiet_panics, Args, CaseWriter, Rng};
use tokio::sync::watch;
use tokio_stream::wrappers::WatchStream;
use tokio_stream::StreamExt;

type Member = (u8, u16, u16); // node id, address number, data-centre number
type Snapshot = Vec<Member>; // sorted by id, ids unique

#[derive(Clone, Debug, PartialEq)]
enum Ev {
    Snap(Snapshot),
    Sub,
    Read,
}

const PORT: u16 = 9000;

fn addr_of(a: u16) -> SocketAddr {
    SocketAddr::new(IpAddr::V4(Ipv4Addr::new(10, 1, (a >> 8) as u8, a as u8)), PORT)
}

fn num_of_addr(a: &SocketAddr) -> String {
    match a.ip() {
        IpAddr::V4(ip) if a.port() == PORT && ip.octets()[0] == 10 && ip.octets()[1] == 1 => {
            format!("{:x}", ((ip.octets()[2] as u16) << 8) | ip.octets()[3] as u16)
        },
        _ => format!("?{a}"),
    }
}

fn num_of_dc(dc: &str) -> String {
    match dc.strip_prefix("dc").and_then(|n| n.parse::<u16>().ok()) {
        Some(n) => format!("{:x}", n),
        None => format!("?{dc}"),
    }
}

fn to_membership(s: &Snapshot) -> NodeMembership {
    s.iter()
        .map(|&(id, a, dc)| (id, ClusterMember::new(id, addr_of(a), format!("dc{dc}"))))
        .collect()
}

fn show_snapshot(s: &Snapshot) -> String {
    let ms: Vec<String> = s.iter().map(|(i, a, d)| format!("{:x}.{:x}.{:x}", i, a, d)).collect();
    format!("s:{}", ms.join(","))
}

fn parse_snapshot(t: &str) -> Option<Snapshot> {
    let body = t.strip_prefix("s:")?;
    let mut out = BTreeMap::new();
    if body.is_empty() {
        return Some(Vec::new());
    }
    for m in body.split(',') {
        let f: Vec<&str> = m.split('.').collect();
        if f.len() != 3 {
            return None;
        }
        let id = u8::from_str_radix(f[0], 16).ok()?;
        let a = u16::from_str_radix(f[1], 16).ok()?;
        let d = u16::from_str_radix(f[2], 16).ok()?;
        if out.insert(id, (id, a, d)).is_some() {
            return None; // ids are unique in a snapshot
        }
    }
    Some(out.into_values().collect())
}

fn show_members(ms: &[ClusterMember]) -> String {
    let mut v: Vec<(u8, String, String)> = ms
        .iter()
        .map(|m| (m.node_id, num_of_addr(&m.public_addr), num_of_dc(&m.data_center)))
        .collect();
    v.sort();
    let parts: Vec<String> = v.iter().map(|(i, a, d)| format!("{:x}.{}.{}", i, a, d)).collect();
    parts.join(",")
}

fn show_change(c: &MembershipChange) -> String {
    format!("J[{}]L[{}]", show_members(&c.joined), show_members(&c.left))
}

/// The classes of histories in which a latest-value channel is known to lose deltas
/// (same fold as `cls_step`/`classify` of the Coq model).  Returns (late, coalesced).
fn classify(evs: &[Ev]) -> (bool, bool) {
    let p = evs
        .iter()
        .take_while(|e| **e != Ev::Sub)
        .filter(|e| matches!(e, Ev::Snap(_)))
        .count();
    let (mut ver, mut fresh, mut seen, mut late, mut coal) = (p, true, 0usize, false, false);
    let post: Vec<&Ev> = evs.iter().skip_while(|e| **e != Ev::Sub).skip(1).collect();
    let mut step = |read: bool| {
        if !read {
            ver += 1;
        } else if fresh {
            late = late || (p >= 1 && ver >= 2);
            coal = coal || ver >= p + 2;
            fresh = false;
            seen = ver;
        } else {
            coal = coal || ver >= seen + 2;
            seen = ver;
        }
    };
    for e in post {
        step(matches!(e, Ev::Read));
    }
    step(true); // the final catch-up poll
    (late, coal)
}

struct RunOut {
    polls: Vec<String>,
    live: BTreeMap<u8, SocketAddr>,
    stuck: bool,
    extra_poll_ready: bool,
}

/// Runs one history on the implementation.
async fn run_history(self_id: u8, evs: &[Ev]) -> RunOut {
    let self_addr = addr_of(0xffff);
    let network = RpcNetwork::default();
    let statistics = ClusterStatistics::default();
    let selector = start_node_selector(self_addr, Cow::Borrowed("dc0"), DCAwareSelector).await;
    let (tx, rx) = watch::channel(MembershipChange::default());
    let mut tx = Some(tx);
    let mut probe = rx.clone();
    let handle = make_handle(
        ClusterMember::new(self_id, self_addr, "dc0".to_string()),
        Clock::new(self_id),
        network.clone(),
        selector.clone(),
        statistics.clone(),
        rx,
    );

    let mut snap_tx: Option<watch::Sender<NodeMembership>> = None;
    let mut stream: Option<WatchStream<MembershipChange>> = None;
    let mut live: BTreeMap<u8, SocketAddr> = BTreeMap::new();
    let mut out = RunOut { polls: Vec::new(), live: BTreeMap::new(), stuck: false, extra_poll_ready: false };

    // The consumers' handling of one event (distributor.rs / poller.rs).
    fn apply(live: &mut BTreeMap<u8, SocketAddr>, c: MembershipChange) {
        for member in c.left {
            live.remove(&member.node_id);
        }
        for member in c.joined {
            live.insert(member.node_id, member.public_addr);
        }
    }

    let poll = |stream: &mut WatchStream<MembershipChange>,
                    live: &mut BTreeMap<u8, SocketAddr>|
     -> (String, bool) {
        match stream.next().now_or_never() {
            Some(Some(c)) => {
                let s = show_change(&c);
                apply(live, c);
                (s, true)
            },
            Some(None) => ("closed".to_string(), false),
            None => ("-".to_string(), false),
        }
    };

    for e in evs {
        match e {
            Ev::Snap(s) => {
                let m = to_membership(s);
                match &snap_tx {
                    None => {
                        // the watcher starts on the node's first membership value
                        let (stx, srx) = watch::channel(m);
                        snap_tx = Some(stx);
                        tokio::spawn(run_membership_watcher(
                            self_id,
                            network.clone(),
                            selector.clone(),
                            statistics.clone(),
                            WatchStream::new(srx),
                            tx.take().unwrap(),
                        ));
                    },
                    Some(stx) => {
                        let _ = stx.send(m);
                    },
                }
                // let the watcher run until it has published and is parked again
                let mut n = 0;
                loop {
                    tokio::task::yield_now().await;
                    if probe.has_changed().unwrap_or(false) {
                        probe.borrow_and_update();
                        break;
                    }
                    n += 1;
                    if n > 400 {
                        out.stuck = true;
                        break;
                    }
                }
                if out.stuck {
                    break;
                }
                // the node talks to the peers it knows of (replication, repair, gossip all go
                // through the shared network's cached channels), so a peer that leaves later
                // leaves with a channel to it in the cache
                for (i, a, _) in s {
                    if *i != self_id {
                        let _ = network.get_or_connect(addr_of(*a));
                    }
                }
            },
            Ev::Sub => stream = Some(handle.membership_changes()),
            Ev::Read => {
                if let Some(st) = stream.as_mut() {
                    out.polls.push(poll(st, &mut live).0);
                }
            },
        }
    }
    if let Some(st) = stream.as_mut() {
        // membership is quiescent: the subscriber catches up
        out.polls.push(poll(st, &mut live).0);
        out.extra_poll_ready = poll(st, &mut live).1;
    }
    out.live = live;
    drop(snap_tx);
    drop(stream);
    drop(handle);
    drop(selector);
    for _ in 0..4 {
        tokio::task::yield_now().await;
    }
    out
}

fn expected_live(self_id: u8, evs: &[Ev]) -> BTreeMap<u8, SocketAddr> {
    let last = evs.iter().rev().find_map(|e| match e {
        Ev::Snap(s) => Some(s.clone()),
        _ => None,
    });
    last.unwrap_or_default()
        .into_iter()
        .filter(|(i, _, _)| *i != self_id)
        .map(|(i, a, _)| (i, addr_of(a)))
        .collect()
}

fn show_live(l: &BTreeMap<u8, SocketAddr>) -> String {
    let parts: Vec<String> = l.iter().map(|(i, a)| format!("{:x}.{}", i, num_of_addr(a))).collect();
    format!("[{}]", parts.join(","))
}

fn case_line(self_id: u8, evs: &[Ev]) -> String {
    let mut s = format!("run {:x}", self_id);
    for e in evs {
        s.push(' ');
        match e {
            Ev::Snap(sn) => s.push_str(&show_snapshot(sn)),
            Ev::Sub => s.push_str("sub"),
            Ev::Read => s.push_str("rd"),
        }
    }
    s
}

fn well_shaped(evs: &[Ev]) -> bool {
    evs.iter().filter(|e| **e == Ev::Sub).count() == 1
        && !evs.iter().take_while(|e| **e != Ev::Sub).any(|e| *e == Ev::Read)
}

/// The history being run, for the watchdog: a watcher that blocks its thread (a lock it never
/// gets) blocks the whole single-threaded runtime, which no in-runtime timeout can see.
static CURRENT: std::sync::Mutex<(u64, String)> = std::sync::Mutex::new((0, String::new()));

fn start_watchdog() {
    std::thread::spawn(|| {
        let mut last = 0u64;
        let mut same = 0u32;
        loop {
            std::thread::sleep(std::time::Duration::from_millis(500));
            let (seq, case) = CURRENT.lock().unwrap().clone();
            if case.is_empty() {
                // between histories (or in another family of cases)
                same = 0;
                continue;
            }
            if seq == last && seq != 0 {
                same += 1;
            } else {
                same = 0;
                last = seq;
            }
            if same >= 40 {
                println!("HXHANG the executor made no progress for 20 s inside history: {case}");
                std::process::exit(3);
            }
        }
    });
}

fn do_run(rt: &tokio::runtime::Runtime, w: &mut CaseWriter, self_id: u8, evs: &[Ev]) {
    struct Idle;
    impl Drop for Idle {
        fn drop(&mut self) {
            CURRENT.lock().unwrap().1.clear();
        }
    }
    {
        let mut cur = CURRENT.lock().unwrap();
        cur.0 += 1;
        cur.1 = case_line(self_id, evs);
    }
    let _idle = Idle;
    let case = case_line(self_id, evs);
    if !well_shaped(evs) {
        w.case(&case, "?bad-case");
        return;
    }
    let out = rt.block_on(run_history(self_id, evs));
    if out.stuck {
        w.case(&case, "stuck");
        w.fail("watcher-does-not-publish", &case, "no publication after a snapshot");
        return;
    }
    let (late, coal) = classify(evs);
    let expect = expected_live(self_id, evs);
    let holds = out.live == expect;
    let res = format!(
        "{} live={} late={} coal={} holds={}",
        out.polls.join(" "),
        show_live(&out.live),
        late as u8,
        coal as u8,
        holds as u8
    );
    w.case(&case, &res);
    let nsnaps = evs.iter().filter(|e| matches!(e, Ev::Snap(_))).count();
    w.stats.hit(&format!("run_snaps_{}", nsnaps.min(9)));
    w.stats.hit(match (late, coal) {
        (true, _) => "shape_late",
        (false, true) => "shape_coalesced",
        _ => "shape_all_delivered",
    });
    w.stats.hit(if holds { "holds" } else { "fails" });
    if out.extra_poll_ready {
        w.fail("stream-not-quiescent", &case, "a second poll after the catch-up poll yielded a value");
    }
    // Oracle: the property itself, on the implementation.
    if !holds {
        let class = if late {
            "late-subscription"
        } else if coal {
            "coalesced-read"
        } else {
            "events-do-not-add-up"
        };
        w.fail(
            class,
            &case,
            &format!("subscriber holds {} but live peers are {}", show_live(&out.live), show_live(&expect)),
        );
    }
}

// ------------------------------------------------------------- the consumer: task distributor

/// Hands every change the real watcher publishes for `snaps` to the real task distributor,
/// queues one put and returns the addresses whose node received it with the next batch.
///
/// With `victim = Some(v)`, before that put an earlier one is queued while the `v`-th live peer
/// is unreachable for one batching interval (the batch to it fails) and reachable again
/// afterwards: membership did not change, so the next batch still has to address it.
async fn run_dist(self_id: u8, snaps: &[Snapshot], victim: Option<usize>) -> Result<Vec<u16>, String> {
    use std::sync::Arc;

    use datacake_crdt::HLCTimestamp;
    use datacake_eventual_consistency::test_utils::MemStore;
    use datacake_eventual_consistency::verif::{start_distributor, ConsistencyService, KeyspaceGroup, Mutation};
    use datacake_eventual_consistency::{Document, Storage};
    use datacake_rpc::Server;

    const KS: &str = "ks";
    let self_addr = addr_of(0xffff);
    let network = RpcNetwork::default();
    let statistics = ClusterStatistics::default();
    let selector = start_node_selector(self_addr, Cow::Borrowed("dc0"), DCAwareSelector).await;
    let (tx, rx) = watch::channel(MembershipChange::default());
    let mut tx = Some(tx);
    let mut probe = rx.clone();
    let clock = Clock::new(self_id);
    let distributor = start_distributor::<MemStore>(clock.clone(), network.clone(), self_id, self_addr).await;

    // one in-process node behind every address that ever appears
    let mut addrs: BTreeSet<u16> = BTreeSet::new();
    for s in snaps {
        for (i, a, _) in s {
            if *i != self_id {
                addrs.insert(*a);
            }
        }
    }
    let mut peers: Vec<(u16, Arc<MemStore>, Server)> = Vec::new();
    for (n, a) in addrs.iter().enumerate() {
        datacake_rpc::verif::unregister_local_server(addr_of(*a));
        let store = Arc::new(MemStore::default());
        let group = KeyspaceGroup::new(store.clone(), Clock::new(100 + n as u8)).await;
        let server = Server::verif_local(addr_of(*a));
        server.add_service(ConsistencyService::new(group, RpcNetwork::default()));
        peers.push((*a, store, server));
    }

    let mut snap_tx: Option<watch::Sender<NodeMembership>> = None;
    for s in snaps {
        let m = to_membership(s);
        match &snap_tx {
            None => {
                let (stx, srx) = watch::channel(m);
                snap_tx = Some(stx);
                tokio::spawn(run_membership_watcher(
                    self_id,
                    network.clone(),
                    selector.clone(),
                    statistics.clone(),
                    WatchStream::new(srx),
                    tx.take().unwrap(),
                ));
            },
            Some(stx) => {
                let _ = stx.send(m);
            },
        }
        let mut n = 0;
        loop {
            tokio::task::yield_now().await;
            if probe.has_changed().unwrap_or(false) {
                break;
            }
            n += 1;
            if n > 400 {
                return Err("no publication after a snapshot".into());
            }
        }
        // what lib.rs does with every event of its membership stream
        let change = probe.borrow_and_update().clone();
        distributor.membership_change(change);
    }
    if let Some(v) = victim {
        let mut live: Vec<u16> = snaps
            .last()
            .map(|s| s.iter().filter(|(i, _, _)| *i != self_id).map(|(_, a, _)| *a).collect())
            .unwrap_or_default();
        live.sort();
        live.dedup();
        if !live.is_empty() {
            let down = addr_of(live[v % live.len()]);
            datacake_rpc::verif::set_link_up(down, false);
            let doc = Document::new(6, HLCTimestamp::from_u64(clock.get_time().await.as_u64()), vec![9]);
            distributor.mutation(Mutation::Put { keyspace: Cow::Borrowed(KS), doc });
            tokio::time::sleep(std::time::Duration::from_millis(1500)).await;
            for _ in 0..50 {
                tokio::task::yield_now().await;
            }
            datacake_rpc::verif::set_link_up(down, true);
        }
    }
    let doc = Document::new(7, HLCTimestamp::from_u64(clock.get_time().await.as_u64()), vec![1, 2, 3]);
    distributor.mutation(Mutation::Put { keyspace: Cow::Borrowed(KS), doc });
    tokio::time::sleep(std::time::Duration::from_millis(2500)).await;
    for _ in 0..50 {
        tokio::task::yield_now().await;
    }
    let mut got = Vec::new();
    for (a, store, _) in &peers {
        if store.get(KS, 7).await.ok().flatten().is_some() {
            got.push(*a);
        }
    }
    distributor.kill();
    for (a, _, server) in peers {
        server.shutdown();
        datacake_rpc::verif::unregister_local_server(addr_of(a));
    }
    drop(snap_tx);
    Ok(got)
}

fn do_dist(w: &mut CaseWriter, self_id: u8, snaps: &[Snapshot], victim: Option<usize>) {
    let parts: Vec<String> = snaps.iter().map(show_snapshot).collect();
    let kind = match victim {
        None => "dist".to_string(),
        Some(v) => format!("distf{}", v),
    };
    let case = format!("{} {:x} {}", kind, self_id, parts.join(" "));
    let rt = tokio::runtime::Builder::new_current_thread().enable_all().start_paused(true).build().unwrap();
    let out = rt.block_on(run_dist(self_id, snaps, victim));
    drop(rt);
    match out {
        Err(e) => {
            w.case(&case, "stuck");
            w.fail("watcher-does-not-publish", &case, &e);
        },
        Ok(got) => {
            let show = |v: &[u16]| {
                let p: Vec<String> = v.iter().map(|a| format!("{:x}", a)).collect();
                format!("[{}]", p.join(","))
            };
            w.case(&case, &format!("recv={}", show(&got)));
            w.stats.hit(if victim.is_some() { "dist_cases_with_a_failed_batch" } else { "dist_cases" });
            // Oracle: the batch addresses exactly the live peers of the last snapshot.
            let mut want: Vec<u16> = snaps
                .last()
                .map(|s| s.iter().filter(|(i, _, _)| *i != self_id).map(|(_, a, _)| *a).collect())
                .unwrap_or_default();
            want.sort();
            want.dedup();
            if got != want {
                w.fail(
                    "consumer-does-not-hold-the-live-peers",
                    &case,
                    &format!("the distributor's batch reached {} but the live peers are {}", show(&got), show(&want)),
                );
            }
        },
    }
}

// ------------------------------------------------------ the consumers behind the store's own glue

/// Runs the store extension's membership glue on the node handle's stream, feeding the real task
/// distributor and the real repair poller.  Returns (addresses reached by the distributor's
/// batch, addresses the poller pulled a document from).
async fn run_glue(self_id: u8, evs: &[Ev]) -> Result<(Vec<u16>, Vec<u16>), String> {
    use std::sync::Arc;
    use std::time::Duration;

    use datacake_crdt::HLCTimestamp;
    use datacake_eventual_consistency::test_utils::MemStore;
    use datacake_eventual_consistency::verif::{
        run_membership_glue,
        start_distributor,
        start_poller,
        ConsistencyService,
        KeyspaceGroup,
        Mutation,
        ReplicationService,
    };
    use datacake_eventual_consistency::{Document, Storage};
    use datacake_rpc::Server;

    const KS: &str = "ks";
    let self_addr = addr_of(0xffff);
    let network = RpcNetwork::default();
    let statistics = ClusterStatistics::default();
    let selector = start_node_selector(self_addr, Cow::Borrowed("dc0"), DCAwareSelector).await;
    let (tx, rx) = watch::channel(MembershipChange::default());
    let mut tx = Some(tx);
    let mut probe = rx.clone();
    let clock = Clock::new(self_id);
    let handle = make_handle(
        ClusterMember::new(self_id, self_addr, "dc0".to_string()),
        clock.clone(),
        network.clone(),
        selector.clone(),
        statistics.clone(),
        rx,
    );
    let local_store = Arc::new(MemStore::default());
    let local_group = KeyspaceGroup::new(local_store.clone(), clock.clone()).await;
    let distributor = start_distributor::<MemStore>(clock.clone(), network.clone(), self_id, self_addr).await;
    let poller = start_poller(local_group.clone(), network.clone(), Duration::from_secs(2)).await;

    // one in-process node behind every address that ever appears; each holds one document of its
    // own (id = 0x100 + address) that the local node lacks
    let mut addrs: BTreeSet<u16> = BTreeSet::new();
    for e in evs {
        if let Ev::Snap(s) = e {
            for (i, a, _) in s {
                if *i != self_id {
                    addrs.insert(*a);
                }
            }
        }
    }
    let mut peers: Vec<(u16, Arc<MemStore>, Server)> = Vec::new();
    for (n, a) in addrs.iter().enumerate() {
        datacake_rpc::verif::unregister_local_server(addr_of(*a));
        let store = Arc::new(MemStore::default());
        let pclock = Clock::new(100 + n as u8);
        let group = KeyspaceGroup::new(store.clone(), pclock.clone()).await;
        let ks = group.get_or_create_keyspace(KS).await;
        let doc = Document::new(0x100 + *a as u64, pclock.get_time().await, vec![9]);
        let _ = ks
            .send(datacake_eventual_consistency::verif::Set::<MemStore> { source: 0, doc, ctx: None, _marker: std::marker::PhantomData })
            .await;
        let server = Server::verif_local(addr_of(*a));
        server.add_service(ConsistencyService::new(group.clone(), RpcNetwork::default()));
        server.add_service(ReplicationService::new(group));
        peers.push((*a, store, server));
    }

    let mut snap_tx: Option<watch::Sender<NodeMembership>> = None;
    let mut glue: Option<tokio::task::JoinHandle<()>> = None;
    for e in evs {
        match e {
            Ev::Snap(s) => {
                let m = to_membership(s);
                match &snap_tx {
                    None => {
                        let (stx, srx) = watch::channel(m);
                        snap_tx = Some(stx);
                        tokio::spawn(run_membership_watcher(
                            self_id,
                            network.clone(),
                            selector.clone(),
                            statistics.clone(),
                            WatchStream::new(srx),
                            tx.take().unwrap(),
                        ));
                    },
                    Some(stx) => {
                        let _ = stx.send(m);
                    },
                }
                let mut n = 0;
                loop {
                    tokio::task::yield_now().await;
                    if probe.has_changed().unwrap_or(false) {
                        probe.borrow_and_update();
                        break;
                    }
                    n += 1;
                    if n > 400 {
                        return Err("no publication after a snapshot".into());
                    }
                }
                // the glue (if running) reads the change before the next one is published
                for _ in 0..8 {
                    tokio::task::yield_now().await;
                }
            },
            Ev::Sub => {
                glue = Some(tokio::spawn(run_membership_glue(distributor.clone(), poller.clone(), handle.clone())));
                for _ in 0..8 {
                    tokio::task::yield_now().await;
                }
            },
            Ev::Read => {},
        }
    }
    let doc = Document::new(7, HLCTimestamp::from_u64(clock.get_time().await.as_u64()), vec![1, 2, 3]);
    distributor.mutation(Mutation::Put { keyspace: Cow::Borrowed(KS), doc });
    // the distributor's interval (1 s) and two repair intervals (2 s each, after the initial wait)
    tokio::time::sleep(Duration::from_millis(6500)).await;
    for _ in 0..50 {
        tokio::task::yield_now().await;
    }
    let mut recv = Vec::new();
    let mut polled = Vec::new();
    for (a, store, _) in &peers {
        if store.get(KS, 7).await.ok().flatten().is_some() {
            recv.push(*a);
        }
        if local_store.get(KS, 0x100 + *a as u64).await.ok().flatten().is_some() {
            polled.push(*a);
        }
    }
    distributor.kill();
    poller.kill();
    if let Some(g) = glue {
        g.abort();
    }
    for (a, _, server) in peers {
        server.shutdown();
        datacake_rpc::verif::unregister_local_server(addr_of(a));
    }
    drop(snap_tx);
    Ok((recv, polled))
}

fn do_glue(w: &mut CaseWriter, self_id: u8, evs: &[Ev]) {
    let mut case = format!("glue {:x}", self_id);
    for e in evs {
        case.push(' ');
        match e {
            Ev::Snap(sn) => case.push_str(&show_snapshot(sn)),
            Ev::Sub => case.push_str("sub"),
            Ev::Read => case.push_str("rd"),
        }
    }
    if evs.iter().filter(|e| **e == Ev::Sub).count() != 1 {
        w.case(&case, "?bad-case");
        return;
    }
    let rt = tokio::runtime::Builder::new_current_thread().enable_all().start_paused(true).build().unwrap();
    let out = rt.block_on(run_glue(self_id, evs));
    drop(rt);
    let show = |v: &[u16]| {
        let p: Vec<String> = v.iter().map(|a| format!("{:x}", a)).collect();
        format!("[{}]", p.join(","))
    };
    match out {
        Err(e) => {
            w.case(&case, "stuck");
            w.fail("watcher-does-not-publish", &case, &e);
        },
        Ok((recv, polled)) => {
            w.case(&case, &format!("recv={} polled={}", show(&recv), show(&polled)));
            w.stats.hit("glue_cases");
            // Oracle: both consumers address exactly the live peers of the last snapshot - unless
            // the history is in the known class "late subscription" (more than one publication
            // before the glue subscribed: the watch channel kept only the latest)
            let pre = evs.iter().take_while(|e| **e != Ev::Sub).filter(|e| matches!(e, Ev::Snap(_))).count();
            let late = pre >= 2;
            let mut want: Vec<u16> = expected_live(self_id, evs).values().map(|a| num_of_addr(a)).map(|s| u16::from_str_radix(&s, 16).unwrap_or(0)).collect();
            want.sort();
            want.dedup();
            if !late {
                if recv != want {
                    w.fail(
                        "consumer-does-not-hold-the-live-peers",
                        &case,
                        &format!("the distributor's batch reached {} but the live peers are {}", show(&recv), show(&want)),
                    );
                }
                if polled != want {
                    w.fail(
                        "consumer-does-not-hold-the-live-peers",
                        &case,
                        &format!("the repair poller pulled from {} but the live peers are {}", show(&polled), show(&want)),
                    );
                }
            } else {
                w.stats.hit("glue_late_subscription");
            }
        },
    }
}

fn do_diff(rt: &tokio::runtime::Runtime, w: &mut CaseWriter, self_id: u8, prev: &Snapshot, new: &Snapshot) {
    let case = format!("diff {:x} {} {}", self_id, show_snapshot(prev), show_snapshot(new));
    // the watcher is started on `prev`, then handed `new`; a receiver that looks at the channel
    // after each publication sees, the second time, the change published for `new`
    let out = rt.block_on(async {
        let self_addr = addr_of(0xffff);
        let network = RpcNetwork::default();
        let statistics = ClusterStatistics::default();
        let selector = start_node_selector(self_addr, Cow::Borrowed("dc0"), DCAwareSelector).await;
        let (tx, rx) = watch::channel(MembershipChange::default());
        let mut probe = rx.clone();
        let (stx, srx) = watch::channel(to_membership(prev));
        tokio::spawn(run_membership_watcher(
            self_id,
            network,
            selector,
            statistics,
            WatchStream::new(srx),
            tx,
        ));
        let mut got = None;
        for round in 0..2 {
            if round == 1 {
                let _ = stx.send(to_membership(new));
            }
            let mut n = 0;
            loop {
                tokio::task::yield_now().await;
                if probe.has_changed().unwrap_or(false) {
                    got = Some(probe.borrow_and_update().clone());
                    break;
                }
                n += 1;
                if n > 400 {
                    return None;
                }
            }
        }
        drop(stx);
        for _ in 0..4 {
            tokio::task::yield_now().await;
        }
        got
    });
    let Some(c) = out else {
        w.case(&case, "stuck");
        w.fail("watcher-does-not-publish", &case, "");
        return;
    };
    w.case(&case, &show_change(&c));
    // Oracle (the "in particular" clause): joined = members of new (other than self) whose
    // (id, address) is not in prev; left = members of prev (other than self), with the data
    // they had in prev, whose (id, address) is not in new.
    let net = |s: &Snapshot| -> BTreeSet<(u8, u16)> {
        s.iter().filter(|m| m.0 != self_id).map(|m| (m.0, m.1)).collect()
    };
    let (np, nn) = (net(prev), net(new));
    let want = |from: &Snapshot, other: &BTreeSet<(u8, u16)>| -> String {
        let v: Vec<String> = from
            .iter()
            .filter(|m| m.0 != self_id && !other.contains(&(m.0, m.1)))
            .map(|(i, a, d)| format!("{:x}.{:x}.{:x}", i, a, d))
            .collect();
        v.join(",")
    };
    let (wj, wl) = (want(new, &np), want(prev, &nn));
    w.stats.hit(if wl.is_empty() { "diff_none_left" } else { "diff_some_left" });
    w.stats.hit(if wj.is_empty() { "diff_none_joined" } else { "diff_some_joined" });
    if show_members(&c.joined) != wj {
        w.fail("joined-not-reported", &case, &format!("joined [{}] expected [{}]", show_members(&c.joined), wj));
    }
    if show_members(&c.left) != wl {
        w.fail("left-not-reported", &case, &format!("left [{}] expected [{}]", show_members(&c.left), wl));
    }
}

/// All snapshots over `ids` where each id is absent or present with one of `addrs`
/// (data centre = id mod 2), plus the members of `always`.
fn universe(ids: &[u8], addrs: &[u16], always: &[Member]) -> Vec<Snapshot> {
    let k = addrs.len() + 1;
    let total = k.pow(ids.len() as u32);
    let mut out = Vec::with_capacity(total);
    for code in 0..total {
        let mut c = code;
        let mut s: Snapshot = always.to_vec();
        for &id in ids {
            let choice = c % k;
            c /= k;
            if choice > 0 {
                s.push((id, addrs[choice - 1], (id % 2) as u16));
            }
        }
        s.sort();
        out.push(s);
    }
    out
}

/// Every subscription point and every placement of polls for the snapshot sequence `seq`.
fn all_schedules(seq: &[&Snapshot], mut f: impl FnMut(&[Ev])) {
    let n = seq.len();
    for p in 0..=n {
        let slots = n - p; // one optional poll before each later snapshot
        for mask in 0u32..(1 << slots) {
            let mut evs: Vec<Ev> = Vec::with_capacity(2 * n + 2);
            for s in &seq[..p] {
                evs.push(Ev::Snap((*s).clone()));
            }
            evs.push(Ev::Sub);
            for (k, s) in seq[p..].iter().enumerate() {
                if mask & (1 << k) != 0 {
                    evs.push(Ev::Read);
                }
                evs.push(Ev::Snap((*s).clone()));
            }
            f(&evs);
        }
    }
}

fn sweep(
    rt: &tokio::runtime::Runtime,
    w: &mut CaseWriter,
    self_id: u8,
    uni: &[Snapshot],
    max_len: usize,
) -> u64 {
    let mut nseq = 0u64;
    for len in 1..=max_len {
        let total = uni.len().pow(len as u32);
        for code in 0..total {
            let mut c = code;
            let mut seq: Vec<&Snapshot> = Vec::with_capacity(len);
            for _ in 0..len {
                seq.push(&uni[c % uni.len()]);
                c /= uni.len();
            }
            nseq += 1;
            all_schedules(&seq, |evs| do_run(rt, w, self_id, evs));
        }
    }
    nseq
}

fn random_snapshot(rng: &mut Rng, self_id: u8, prev: Option<&Snapshot>) -> Snapshot {
    let ids: [u8; 6] = [0, 1, 2, 3, 0x7f, 0xff];
    let addrs: [u16; 4] = [0xa, 0xb, 0xc, 0xfffe];
    match (prev, rng.below(10)) {
        (Some(p), 0) => return p.clone(), // unchanged snapshot
        (_, 1) => return Vec::new(),
        _ => {},
    }
    let mut m: BTreeMap<u8, Member> = BTreeMap::new();
    if let Some(p) = prev {
        // mutate the previous snapshot: joins, leaves, address changes, dc changes, rejoin
        for x in p {
            m.insert(x.0, *x);
        }
        for _ in 0..1 + rng.below(3) {
            let id = *rng.pick(&ids);
            match rng.below(5) {
                0 => {
                    m.remove(&id);
                },
                1 | 2 => {
                    m.insert(id, (id, *rng.pick(&addrs), rng.below(2) as u16));
                },
                3 => {
                    if let Some(x) = m.get_mut(&id) {
                        x.1 = *rng.pick(&addrs);
                    }
                },
                _ => {
                    if let Some(x) = m.get_mut(&id) {
                        x.2 = rng.below(3) as u16;
                    }
                },
            }
        }
    } else {
        for &id in &ids {
            if rng.chance(1, 2) {
                m.insert(id, (id, *rng.pick(&addrs), rng.below(2) as u16));
            }
        }
    }
    if rng.chance(3, 4) {
        m.entry(self_id).or_insert((self_id, 0xffff, 0));
    }
    m.into_values().collect()
}

fn random_history(rng: &mut Rng) -> (u8, Vec<Ev>) {
    let self_id = *rng.pick(&[0u8, 1, 2, 0xff]);
    let n = 1 + rng.below(9) as usize;
    let mut seq: Vec<Snapshot> = Vec::new();
    for _ in 0..n {
        let s = random_snapshot(rng, self_id, seq.last());
        seq.push(s);
    }
    // subscription point: the start, the end and the first two positions over-represented
    let p = match rng.below(6) {
        0 | 1 => 0,
        2 => 1.min(n),
        3 => n,
        _ => rng.below(n as u64 + 1) as usize,
    };
    let style = rng.below(4); // 0: poll after every snapshot, 1: rarely, else: mixed
    let mut evs = Vec::new();
    for s in &seq[..p] {
        evs.push(Ev::Snap(s.clone()));
    }
    evs.push(Ev::Sub);
    for s in &seq[p..] {
        let reads = match style {
            0 => 1 + rng.below(2),
            1 => (rng.below(5) == 0) as u64,
            _ => rng.below(3),
        };
        for _ in 0..reads {
            evs.push(Ev::Read);
        }
        evs.push(Ev::Snap(s.clone()));
    }
    (self_id, evs)
}

fn parse_case(line: &str) -> Option<(String, u8, Vec<Ev>)> {
    let t: Vec<&str> = line.split_whitespace().collect();
    if t.len() < 2 {
        return None;
    }
    let self_id = u8::from_str_radix(t[1], 16).ok()?;
    let mut evs = Vec::new();
    for tok in &t[2..] {
        evs.push(match *tok {
            "sub" => Ev::Sub,
            "rd" => Ev::Read,
            s => Ev::Snap(parse_snapshot(s)?),
        });
    }
    Some((t[0].to_string(), self_id, evs))
}

fn main() {
    start_watchdog();
    quiet_panics();
    let args = Args::parse();
    let mut rng = Rng::new(args.seed);
    let mut w = CaseWriter::new(&args.dir, "membership");
    let rt = tokio::runtime::Builder::new_current_thread().enable_all().build().unwrap();

    if let Some(path) = &args.replay {
        let text = std::fs::read_to_string(path).unwrap();
        for line in text.lines() {
            if line.trim().is_empty() || line.starts_with('#') {
                continue;
            }
            match parse_case(line) {
                Some((kind, self_id, evs)) if kind == "run" => do_run(&rt, &mut w, self_id, &evs),
                Some((kind, self_id, evs)) if kind == "glue" => do_glue(&mut w, self_id, &evs),
                Some((kind, self_id, evs)) if kind == "dist" || kind == "distf0" || kind == "distf1" => {
                    let victim = match kind.as_str() {
                        "distf0" => Some(0),
                        "distf1" => Some(1),
                        _ => None,
                    };
                    let snaps: Vec<Snapshot> = evs
                        .iter()
                        .filter_map(|e| match e {
                            Ev::Snap(s) => Some(s.clone()),
                            _ => None,
                        })
                        .collect();
                    do_dist(&mut w, self_id, &snaps, victim)
                },
                Some((kind, self_id, evs)) if kind == "diff" => match evs.as_slice() {
                    [Ev::Snap(a), Ev::Snap(b)] => do_diff(&rt, &mut w, self_id, a, b),
                    _ => w.case(line, "?bad-case"),
                },
                _ => w.case(line, "?bad-case"),
            }
        }
        w.finish(&[]);
        return;
    }

    let me: Member = (0, 0xffff, 0);

    // 1. the differ on every pair of snapshots over 3 ids x 2 addresses (self present,
    //    absent, and self = one of the ids)
    let uni3 = universe(&[1, 2, 3], &[0xa, 0xb], &[me]);
    let mut ndiff = 0u64;
    for a in &uni3 {
        for b in &uni3 {
            do_diff(&rt, &mut w, 0, a, b);
            ndiff += 1;
        }
    }
    let uni3s = universe(&[1, 2, 3], &[0xa, 0xb], &[]);
    for a in &uni3s {
        for b in &uni3s {
            do_diff(&rt, &mut w, 1, a, b);
            ndiff += 1;
        }
    }

    // 2. bounded-exhaustive histories
    //    A: 3 ids x 2 addresses (27 snapshots), sequences of length <= 3
    //    B: 2 ids x 2 addresses (9 snapshots), sequences of length <= 4 (thorough: <= 5)
    //    C: 2 ids x 2 addresses where one id is the node itself, length <= 3
    let seq_a = sweep(&rt, &mut w, 0, &uni3, 3);
    let uni2 = universe(&[1, 2], &[0xa, 0xb], &[me]);
    let seq_b = sweep(&rt, &mut w, 0, &uni2, if args.thorough() { 5 } else { 4 });
    let uni2s = universe(&[1, 2], &[0xa, 0xb], &[]);
    let seq_c = sweep(&rt, &mut w, 1, &uni2s, 3);
    //    D: the consumer - every change handed to the real task distributor: every snapshot
    //       sequence of length <= 3 over 2 ids x 2 addresses (address changes included), and
    //       length <= 2 over 3 ids x 2 addresses
    let mut ndist = 0u64;
    for len in 1..=3usize {
        let mut idx = vec![0usize; len];
        loop {
            let snaps: Vec<Snapshot> = idx.iter().map(|i| uni2[*i].clone()).collect();
            do_dist(&mut w, 0, &snaps, None);
            ndist += 1;
            if len <= 2 {
                // the same with one batch failing for one live peer (first / second by address)
                do_dist(&mut w, 0, &snaps, Some(0));
                do_dist(&mut w, 0, &snaps, Some(1));
                ndist += 2;
            }
            let mut p = len;
            let mut done = false;
            loop {
                if p == 0 {
                    done = true;
                    break;
                }
                p -= 1;
                idx[p] += 1;
                if idx[p] < uni2.len() {
                    break;
                }
                idx[p] = 0;
            }
            if done {
                break;
            }
        }
    }
    for a in &uni3 {
        for b in &uni3 {
            do_dist(&mut w, 0, &[a.clone(), b.clone()], None);
            ndist += 1;
        }
    }
    w.stats.add("dist_sequences", ndist);
    //    E: the store's own glue in front of the real distributor and the real repair poller: the
    //       glue subscribes before any publication or after exactly one (more is the known class
    //       "late subscription"), then every snapshot sequence of length <= 2 over 2 ids x 2
    //       addresses; plus one long flapping history (many changes within one repair interval)
    let mut nglue = 0u64;
    for first in &uni2 {
        for a in &uni2 {
            for b in &uni2 {
                if (nglue % 3 != 0) && !args.thorough() {
                    nglue += 1;
                    continue;
                }
                do_glue(&mut w, 0, &[Ev::Sub, Ev::Snap(first.clone()), Ev::Snap(a.clone()), Ev::Snap(b.clone())]);
                do_glue(&mut w, 0, &[Ev::Snap(first.clone()), Ev::Sub, Ev::Snap(a.clone()), Ev::Snap(b.clone())]);
                nglue += 1;
            }
        }
    }
    {
        // node 2 flaps a hundred times, node 1 joins at the very end
        let with2: Snapshot = vec![me, (2, 0xb, 0)];
        let without: Snapshot = vec![me];
        let mut evs = vec![Ev::Sub];
        for i in 0..100 {
            evs.push(Ev::Snap(if i % 2 == 0 { with2.clone() } else { without.clone() }));
        }
        evs.push(Ev::Snap(vec![me, (1, 0xa, 1)]));
        do_glue(&mut w, 0, &evs);
    }
    w.stats.add("glue_sequences", nglue);
    let exhaustive_cases = w.n;

    // 3. random longer histories (joins, leaves, address and data-centre changes, rejoin,
    //    the node itself present/absent/moving, empty snapshots, repeated polls)
    let n_random = if args.thorough() { 400_000 } else { 30_000 };
    for _ in 0..n_random {
        let (self_id, evs) = random_history(&mut rng);
        do_run(&rt, &mut w, self_id, &evs);
        if rng.chance(1, 4) {
            let a = random_snapshot(&mut rng, self_id, None);
            let b = random_snapshot(&mut rng, self_id, Some(&a));
            do_diff(&rt, &mut w, self_id, &a, &b);
        }
    }

    w.finish(&[
        ("diff_pairs_exhaustive", ndiff.to_string()),
        ("sequences_3ids_len_le3", seq_a.to_string()),
        ("sequences_2ids_len_le4_quick_le5_thorough", seq_b.to_string()),
        ("sequences_self_in_universe_len_le3", seq_c.to_string()),
        ("exhaustive_cases", exhaustive_cases.to_string()),
        ("random_histories", n_random.to_string()),
    ]);
}
