// shared helpers of the hx-membership executors
