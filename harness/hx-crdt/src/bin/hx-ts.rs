//! hx-ts: implementation executor for C10 (timestamp encoding).
//!
//! Generates the cases (boundary grid, random valid stamps, random u64 words,
//! malformed text), runs them on `datacake_crdt::HLCTimestamp` from /repo's
//! working tree, writes `<dir>/ts.cases` + `<dir>/ts.impl` for the model
//! comparison and evaluates the property's own predicate on the implementation
//! (`<dir>/ts.fail`).

use std::str::FromStr;
use std::time::Duration;

use datacake_crdt::HLCTimestamp;
use hxcommon::{hex_bytes, no_panic, quiet_panics, unhex_bytes, Args, CaseWriter, Rng};

const TS_MAX: u64 = (1 << 32) - 1;

fn show_outcome(r: Option<Result<u64, ()>>) -> String {
    match r {
        None => "panic".into(),
        Some(Ok(v)) => format!("ok:{:x}", v),
        Some(Err(())) => "err".into(),
    }
}

fn tick_of(ts: &HLCTimestamp) -> u128 {
    ts.datacake_timestamp().as_millis() / 4
}

fn do_new(w: &mut CaseWriter, sec: u64, ms: u32, sub_ms_nanos: u32, cnt: u16, node: u8) {
    let case = format!("new {:x} {:x} {:x} {:x}", sec, ms, cnt, node);
    let r = no_panic(|| {
        HLCTimestamp::new(Duration::new(sec, ms * 1_000_000 + sub_ms_nanos), cnt, node).as_u64()
    });
    w.case(&case, &show_outcome(r.map(Ok)));
    w.stats.hit(if r.is_some() { "new_ok" } else { "new_panic" });
    // Oracle: for valid fields every accessor returns what was packed and all
    // forms round-trip.
    if sec <= TS_MAX {
        match r {
            None => w.fail("new-panics-on-valid-fields", &case, ""),
            Some(v) => {
                let ts = HLCTimestamp::from_u64(v);
                let frac = (ms / 4) as u8;
                if ts.seconds() != sec
                    || ts.fractional() != frac
                    || ts.counter() != cnt
                    || ts.node() != node
                    || ts.as_u64() != v
                {
                    w.fail(
                        "accessor-roundtrip",
                        &case,
                        &format!(
                            "got sec={} frac={} cnt={} node={}",
                            ts.seconds(),
                            ts.fractional(),
                            ts.counter(),
                            ts.node()
                        ),
                    );
                }
                if ts.datacake_timestamp()
                    != Duration::from_secs(sec) + Duration::from_millis(frac as u64 * 4)
                {
                    w.fail("duration-roundtrip", &case, "");
                }
                let text = ts.to_string();
                match no_panic(|| HLCTimestamp::from_str(&text)) {
                    None => w.fail("parse-panics", &case, &text),
                    Some(Err(_)) => w.fail("print-parse-roundtrip", &case, &text),
                    Some(Ok(back)) => {
                        if back != ts {
                            w.fail("print-parse-roundtrip", &case, &text)
                        }
                    },
                }
                let bytes = rkyv::to_bytes::<_, 64>(&ts).unwrap();
                let back: HLCTimestamp = rkyv::from_bytes(&bytes).unwrap();
                let cast = unsafe { rkyv::archived_root::<HLCTimestamp>(&bytes) }.cast();
                if back != ts || cast != ts {
                    w.fail("archive-roundtrip", &case, &hex_bytes(&bytes));
                }
            },
        }
    }
}

fn do_word(w: &mut CaseWriter, v: u64) {
    let ts = HLCTimestamp::from_u64(v);
    let case = format!("acc {:x}", v);
    let res = format!(
        "{:x} {:x} {:x} {:x} {:x}",
        ts.seconds(),
        ts.fractional(),
        ts.counter(),
        ts.node(),
        tick_of(&ts)
    );
    w.case(&case, &res);
    let text = ts.to_string();
    w.case(&format!("show {:x}", v), &hex_bytes(text.as_bytes()));
    do_parse(w, text.as_bytes());
    let bytes = rkyv::to_bytes::<_, 64>(&ts).unwrap();
    let bs: Vec<String> = bytes.iter().map(|b| format!("{:x}", b)).collect();
    w.case(&format!("le8 {:x}", v), &bs.join(" "));
    let cast = unsafe { rkyv::archived_root::<HLCTimestamp>(&bytes) }.cast();
    w.case(&format!("ofle8 {}", bs.join(" ")), &format!("some:{:x}", cast.as_u64()));
    if ts.as_u64() != v {
        w.fail("from-as-u64", &case, "");
    }
    w.stats.hit(if ts.fractional() <= 249 { "word_valid_fraction" } else { "word_gibberish_fraction" });
}

fn do_parse(w: &mut CaseWriter, text: &[u8]) {
    let case = format!("parse {}", hex_bytes(text));
    let r = match std::str::from_utf8(text) {
        Ok(s) => no_panic(|| HLCTimestamp::from_str(s).map(|t| t.as_u64()).map_err(|_| ())),
        Err(_) => return, // not a &str: cannot reach from_str
    };
    w.case(&case, &show_outcome(r));
    match r {
        None => {
            w.stats.hit("parse_panic");
            w.fail("parse-panics", &case, &String::from_utf8_lossy(text));
        },
        Some(Ok(v)) => {
            w.stats.hit("parse_ok");
            let ts = HLCTimestamp::from_u64(v);
            if ts.fractional() > 249 {
                w.fail("parse-returns-invalid-stamp", &case, "");
            }
        },
        Some(Err(())) => w.stats.hit("parse_err"),
    }
}

fn do_cmp(w: &mut CaseWriter, a: u64, b: u64) {
    let ta = HLCTimestamp::from_u64(a);
    let tb = HLCTimestamp::from_u64(b);
    let lt = ta < tb;
    let case = format!("cmp {:x} {:x}", a, b);
    w.case(&case, if lt { "1" } else { "0" });
    // Oracle: agrees with the lexicographic order on (time, counter, node) for
    // valid stamps.
    if ta.fractional() <= 249 && tb.fractional() <= 249 {
        let ka = (ta.datacake_timestamp(), ta.counter(), ta.node());
        let kb = (tb.datacake_timestamp(), tb.counter(), tb.node());
        if (ka < kb) != lt || (ka == kb) != (ta == tb) {
            w.fail("order-not-lexicographic", &case, "");
        }
        w.stats.hit(if ka.0 == kb.0 { "cmp_same_time" } else { "cmp_diff_time" });
    }
}

fn valid_word(rng: &mut Rng) -> u64 {
    let sec = match rng.below(6) {
        0 => 0,
        1 => TS_MAX,
        2 => TS_MAX - rng.below(3),
        3 => rng.below(4),
        _ => rng.below(TS_MAX + 1),
    };
    let frac = match rng.below(5) {
        0 => 0,
        1 => 249,
        2 => 248,
        _ => rng.below(250),
    };
    let cnt = match rng.below(6) {
        0 => 0,
        1 => 65535,
        2 => 65534,
        3 => rng.below(300),
        _ => rng.below(65536),
    };
    let node = match rng.below(5) {
        0 => 0,
        1 => 255,
        _ => rng.below(256),
    };
    (sec << 32) | (frac << 24) | (cnt << 8) | node
}

fn mutate_text(rng: &mut Rng, base: &str) -> Vec<u8> {
    let mut b = base.as_bytes().to_vec();
    let hostile: &[&str] = &[
        "4294967296", "4294967295", "18446744073709551615", "18446744073709551616",
        "99999999999999999999", "255", "256", "250", "249", "0250", "+1", "+", "-", "",
        "FFFF", "ffff", "10000", "FfFf", "+ffff", "0x10", " 1", "1 ", "١", "é", "00000000000000000001",
        "0000000000000000000000256", "-1",
    ];
    for _ in 0..1 + rng.below(3) {
        match rng.below(9) {
            0 => {
                // replace one field
                let mut parts: Vec<String> =
                    String::from_utf8_lossy(&b).split('-').map(|s| s.to_string()).collect();
                if !parts.is_empty() {
                    let i = rng.below(parts.len() as u64) as usize;
                    parts[i] = rng.pick(hostile).to_string();
                }
                b = parts.join("-").into_bytes();
            },
            1 => {
                // drop one field
                let mut parts: Vec<String> =
                    String::from_utf8_lossy(&b).split('-').map(|s| s.to_string()).collect();
                if !parts.is_empty() {
                    let i = rng.below(parts.len() as u64) as usize;
                    parts.remove(i);
                }
                b = parts.join("-").into_bytes();
            },
            2 => {
                // extra dash somewhere
                let i = rng.below(b.len() as u64 + 1) as usize;
                b.insert(i, b'-');
            },
            3 => {
                if !b.is_empty() {
                    let i = rng.below(b.len() as u64) as usize;
                    b.remove(i);
                }
            },
            4 => {
                let i = rng.below(b.len() as u64 + 1) as usize;
                let c = *rng.pick(b"0123456789abcdefABCDEF+-x gG\t");
                b.insert(i, c);
            },
            5 => {
                if !b.is_empty() {
                    let i = rng.below(b.len() as u64) as usize;
                    b[i] = *rng.pick(b"0123456789abcdefABCDEF+-");
                }
            },
            6 => {
                // append another field
                b.push(b'-');
                b.extend_from_slice(rng.pick(hostile).as_bytes());
            },
            7 => {
                // four hostile fields
                let f: Vec<&str> = (0..4).map(|_| *rng.pick(hostile)).collect();
                b = f.join("-").into_bytes();
            },
            _ => {
                // seconds field near or beyond the 32-bit boundary, fraction with carry
                let sec = match rng.below(4) {
                    0 => TS_MAX,
                    1 => TS_MAX + 1,
                    2 => u64::MAX,
                    _ => TS_MAX - 1,
                };
                let frac = *rng.pick(&[0u64, 249, 250, 255]);
                b = format!("{}-{:0>4}-{:0>4X}-{:0>4}", sec, frac, rng.below(65536), rng.below(256))
                    .into_bytes();
            },
        }
    }
    b
}

fn main() {
    quiet_panics();
    let args = Args::parse();
    let mut rng = Rng::new(args.seed);
    let mut w = CaseWriter::new(&args.dir, "ts");

    if let Some(path) = &args.replay {
        // Replay file: one case line per line (as written in a .cases file).
        let text = std::fs::read_to_string(path).unwrap();
        for line in text.lines() {
            let t: Vec<&str> = line.split_whitespace().collect();
            match t.as_slice() {
                ["new", s, m, c, n] => do_new(
                    &mut w,
                    u64::from_str_radix(s, 16).unwrap(),
                    u32::from_str_radix(m, 16).unwrap(),
                    0,
                    u16::from_str_radix(c, 16).unwrap(),
                    u8::from_str_radix(n, 16).unwrap(),
                ),
                ["acc", v] | ["show", v] | ["le8", v] => do_word(&mut w, u64::from_str_radix(v, 16).unwrap()),
                ["parse", s] => do_parse(&mut w, &unhex_bytes(s)),
                ["parse"] => do_parse(&mut w, b""),
                ["cmp", a, b] => do_cmp(
                    &mut w,
                    u64::from_str_radix(a, 16).unwrap(),
                    u64::from_str_radix(b, 16).unwrap(),
                ),
                _ => {},
            }
        }
        w.finish(&[]);
        return;
    }

    // 1. boundary grid (exhaustive)
    let secs = [0u64, 1, 1 << 31, TS_MAX - 1, TS_MAX];
    let mss = [0u32, 1, 3, 4, 7, 496, 499, 500, 992, 995, 996, 999];
    let cnts = [0u16, 1, 255, 256, 65534, 65535];
    let nodes = [0u8, 1, 127, 255];
    let mut grid = Vec::new();
    for &s in &secs {
        for &m in &mss {
            for &c in &cnts {
                for &n in &nodes {
                    do_new(&mut w, s, m, (s as u32 ^ m).wrapping_mul(2654435761) % 1_000_000, c, n);
                    let v = (s << 32) | (((m / 4) as u64) << 24) | ((c as u64) << 8) | n as u64;
                    do_word(&mut w, v);
                    grid.push(v);
                }
            }
        }
    }
    let grid_points = grid.len();
    // out-of-range seconds must panic in `new` (documented assert), in model and code alike
    for &s in &[TS_MAX + 1, TS_MAX + 2, 1 << 33, u64::MAX] {
        do_new(&mut w, s, 0, 0, 0, 0);
        do_new(&mut w, s, 999, 0, 65535, 255);
    }
    // order on all grid pairs that differ in one or two fields (sub-sampled deterministically)
    let step = if args.thorough() { 1 } else { 7 };
    let mut k = 0usize;
    for i in 0..grid.len() {
        for j in 0..grid.len() {
            k += 1;
            if k % step == 0 && (i % 11 == j % 11 || (i + j) % 13 == 0) {
                do_cmp(&mut w, grid[i], grid[j]);
            }
        }
    }

    // 2. random valid stamps
    let n_valid = if args.thorough() { 400_000 } else { 40_000 };
    let mut prev = 0u64;
    for _ in 0..n_valid {
        let v = valid_word(&mut rng);
        let ts = HLCTimestamp::from_u64(v);
        let ms = ts.fractional() as u32 * 4 + rng.below(4) as u32;
        do_new(&mut w, ts.seconds(), ms, rng.below(1_000_000) as u32, ts.counter(), ts.node());
        do_word(&mut w, v);
        do_cmp(&mut w, prev, v);
        // a neighbour differing in exactly one field
        let nb = match rng.below(4) {
            0 => v ^ 1,
            1 => v ^ (1 << 8),
            2 => v ^ (1 << 32),
            _ => {
                let f = (v >> 24) & 0xFF;
                let f2 = if f == 0 { 1 } else { f - 1 };
                (v & !(0xFFu64 << 24)) | (f2 << 24)
            },
        };
        do_cmp(&mut w, v, nb);
        prev = v;
    }

    // 3. random 64-bit words through from_u64 (fraction may be 250..255)
    let n_words = if args.thorough() { 200_000 } else { 20_000 };
    for _ in 0..n_words {
        let v = rng.next();
        do_word(&mut w, v);
        let u = rng.next();
        do_cmp(&mut w, v, u);
    }

    // 4. malformed text
    let n_text = if args.thorough() { 1_000_000 } else { 60_000 };
    for fixed in [
        "", "-", "--", "---", "----", "0-0-0-0", "1-2-3", "1-2-3-4-5", "4294967296-0000-0000-0000",
        "4294967295-0250-0000-0000", "4294967295-0249-0000-0000", "18446744073709551615-255-0-0",
        "18446744073709551615-0-0-0", "18446744073709551616-0-0-0", "+1-+2-+a-+3", "1-2-g-3",
        "1-256-0-0", "1-0-10000-0", "1-0-0-256", "1-0-0-0-", "1-0-0--0", " 1-0-0-0", "é-0-0-0",
    ] {
        do_parse(&mut w, fixed.as_bytes());
    }
    for _ in 0..n_text {
        let base = HLCTimestamp::from_u64(valid_word(&mut rng)).to_string();
        let m = mutate_text(&mut rng, &base);
        do_parse(&mut w, &m);
    }

    w.finish(&[("grid_points", grid_points.to_string())]);
}
