//! hx-orswot: implementation executor for the OrSWotSet properties.
//!
//! `mode=c04` (default): histories of inserts/deletes on one replica — arrival
//! order, sources, rejection, return values and predictions (C04).
//! `mode=c08`: the same with purges in between (C08, local facts).
//! `mode=c05`: pairs of replicas, diff and repair (C05).
//! `mode=c03`: pairs/triples of replicas and merge (C03).
//!
//! Every case is one line `seq <nsrc> 0 tok...`; the token language is interpreted by
//! `hx_crdt::interpret` here and by `run_orswot` in the model driver.

use std::collections::BTreeMap;

use datacake_crdt::OrSWotSet;
use hx_crdt::*;
use hxcommon::{no_panic, quiet_panics, Args, CaseWriter, Rng};

#[derive(Clone, Copy, Debug, PartialEq, Eq)]
struct Op {
    del: bool,
    src: usize,
    key: u64,
    t: u64,
}

impl Op {
    fn tok(&self) -> String {
        format!("{}:{}:{:x}:{:x}", if self.del { "d" } else { "i" }, self.src, self.key, self.t)
    }
}

fn probes_tok(probes: &[u64]) -> String {
    let v: Vec<String> = probes.iter().map(|t| format!("{:x}", t)).collect();
    format!("S:{}", v.join(","))
}

/// The view of one key: (stamp, is_tombstone).
fn view_of<S: SetApi>(s: &S, k: u64) -> Option<(u64, bool)> {
    let (e, d) = s.contents();
    if let Some((_, t)) = e.iter().find(|(kk, _)| *kk == k) {
        return Some((*t, false));
    }
    d.iter().find(|(kk, _)| *kk == k).map(|(_, t)| (*t, true))
}

/// Builds the case line for a history and evaluates C04's own predicate on the
/// implementation.  `purge_at`: positions (before op i) at which a purge is issued.
fn history_case<S: SetApi>(
    w: &mut CaseWriter,
    nsrc: usize,
    ops: &[Op],
    purge_at: &[usize],
    keys: &[u64],
    probes: &[u64],
    class_prefix: &str,
) {
    let mut toks: Vec<String> = Vec::new();
    for (i, o) in ops.iter().enumerate() {
        if purge_at.contains(&i) {
            toks.push("p".into());
            toks.push(probes_tok(probes));
        }
        toks.push(format!("w:{:x}:{:x}", o.key, o.t));
        toks.push(o.tok());
        toks.push(probes_tok(probes));
    }
    if purge_at.contains(&ops.len()) {
        toks.push("p".into());
        toks.push(probes_tok(probes));
    }
    for k in keys {
        toks.push(format!("g:{:x}", k));
    }
    let case = format!("seq {} 0 {}", nsrc, toks.join(" "));
    let tv: Vec<&str> = toks.iter().map(|s| s.as_str()).collect();
    let res = match no_panic(|| interpret::<S>(&tv)) {
        Some(r) => r,
        None => {
            w.case(&case, "panic");
            w.fail(&format!("{class_prefix}panic"), &case, "the set panicked");
            return;
        },
    };
    w.case(&case, &res);

    // ---- the property's own predicate, on the implementation -------------------
    let mut s = S::default();
    let mut stamps_distinct = true;
    let mut seen: Vec<u64> = Vec::new();
    for o in ops {
        if seen.contains(&o.t) {
            stamps_distinct = false;
        }
        seen.push(o.t);
    }
    let tmin = ops.iter().map(|o| tick_of(o.t)).min().unwrap_or(0);
    let tmax = ops.iter().map(|o| tick_of(o.t)).max().unwrap_or(0);
    let within_w = tmax - tmin < W_TICKS && tmin >= 1;
    let mut any_rejected = false;
    let mut any_purged = false;
    for (i, o) in ops.iter().enumerate() {
        if purge_at.contains(&i) {
            let live_before = s.contents().0;
            let dead_before = s.contents().1;
            let purged = s.purge_();
            any_purged |= !purged.is_empty();
            let (live_after, dead_after) = s.contents();
            if live_before != live_after {
                w.fail(&format!("{class_prefix}purge-changed-live-set"), &case, &format!("before op {i}"));
            }
            if purged.iter().any(|p| !dead_before.contains(p))
                || dead_after.iter().any(|p| !dead_before.contains(p))
                || dead_before.iter().any(|p| !dead_after.contains(p) && !purged.contains(p))
            {
                w.fail(&format!("{class_prefix}purge-not-a-partition-of-tombstones"), &case, &format!("before op {i}"));
            }
            // afterwards nothing from the deleting node that is not newer than a purged delete applies
            for (pk, pt) in &purged {
                for src in 0..nsrc {
                    for key in [*pk, 0x7777] {
                        for del in [false, true] {
                            let mut c = s.clone();
                            let r = if del { c.del(src, key, *pt) } else { c.ins(src, key, *pt) };
                            if r || c.contents() != s.contents() {
                                w.fail(
                                    &format!("{class_prefix}purged-delete-not-rejected-afterwards"),
                                    &case,
                                    &format!("purged {:x}@{:x}, re-applied as del={} src={}", pk, pt, del, src),
                                );
                            }
                        }
                    }
                }
            }
        }
        let before_cut = !s.will(PROBE_KEY, o.t);
        any_rejected |= before_cut;
        let pred = s.will(o.key, o.t);
        let v0 = view_of(&s, o.key);
        let fresh_stamp = v0.map(|(t, _)| t != o.t).unwrap_or(true);
        let others0 = s.contents();
        let r = if o.del { s.del(o.src, o.key, o.t) } else { s.ins(o.src, o.key, o.t) };
        let v1 = view_of(&s, o.key);
        let changed = v0 != v1;
        if fresh_stamp && !(pred == r && r == changed) {
            w.fail(
                &format!("{class_prefix}return-prediction-change-disagree"),
                &case,
                &format!("op {i}: will_apply={pred} returned={r} view_changed={changed}"),
            );
        }
        // no other key may change
        let others1 = s.contents();
        let strip = |p: &(Pairs, Pairs)| {
            (
                p.0.iter().filter(|(k, _)| *k != o.key).cloned().collect::<Vec<_>>(),
                p.1.iter().filter(|(k, _)| *k != o.key).cloned().collect::<Vec<_>>(),
            )
        };
        if strip(&others0) != strip(&others1) {
            w.fail(&format!("{class_prefix}other-key-changed"), &case, &format!("op {i}"));
        }
    }
    // C08 (global): a timely history with purges shows the same live keys as without
    if !purge_at.is_empty() && stamps_distinct {
        let mut timely = true;
        let mut maxtick = 0u64;
        for o in ops {
            let t = tick_of(o.t);
            if t < 1 || (maxtick >= t + W_TICKS) {
                timely = false;
            }
            maxtick = maxtick.max(t);
        }
        if timely {
            w.stats.hit("hist_timely_with_purges");
            let mut u = S::default();
            for o in ops {
                if o.del { u.del(o.src, o.key, o.t); } else { u.ins(o.src, o.key, o.t); }
            }
            if u.contents().0 != s.contents().0 {
                w.fail(&format!("{class_prefix}purging-changed-the-live-result"), &case,
                       &format!("with purges {:?} without {:?}", s.contents().0, u.contents().0));
            }
            let mut lww: BTreeMap<u64, Op> = BTreeMap::new();
            for o in ops {
                let e = lww.entry(o.key).or_insert(*o);
                if ts(e.t) < ts(o.t) { *e = *o; }
            }
            for k in keys {
                let expect = lww.get(k).and_then(|o| if o.del { None } else { Some(o.t) });
                if s.get_(*k) != expect {
                    w.fail(&format!("{class_prefix}purging-replica-not-lww"), &case,
                           &format!("key {:x}: get={:?} expected={:?}", k, s.get_(*k), expect));
                }
            }
        }
    }
    if any_rejected {
        w.stats.hit("hist_with_rejection");
    }
    if any_purged {
        w.stats.hit("hist_with_nonempty_purge");
    }
    if stamps_distinct && within_w {
        w.stats.hit("hist_lww_premise");
        // greatest stamp wins per key, whatever the arrival order and sources
        let mut lww: BTreeMap<u64, Op> = BTreeMap::new();
        for o in ops {
            let e = lww.entry(o.key).or_insert(*o);
            if ts(e.t) < ts(o.t) {
                *e = *o;
            }
        }
        for k in keys {
            let expect = lww.get(k).and_then(|o| if o.del { None } else { Some(o.t) });
            if s.get_(*k) != expect {
                w.fail(
                    &format!("{class_prefix}greatest-stamp-does-not-win"),
                    &case,
                    &format!("key {:x}: get={:?} expected={:?}", k, s.get_(*k), expect),
                );
            }
        }
    }
}

fn history_case_n(
    w: &mut CaseWriter,
    nsrc: usize,
    ops: &[Op],
    purge_at: &[usize],
    keys: &[u64],
    probes: &[u64],
    class_prefix: &str,
) {
    match nsrc {
        1 => history_case::<OrSWotSet<1>>(w, nsrc, ops, purge_at, keys, probes, class_prefix),
        _ => history_case::<OrSWotSet<2>>(w, nsrc, ops, purge_at, keys, probes, class_prefix),
    }
}

/// All sequences of length `len` over `alphabet`.
fn for_each_seq(alphabet: &[Op], len: usize, f: &mut dyn FnMut(&[Op])) {
    let mut idx = vec![0usize; len];
    let mut cur: Vec<Op> = vec![alphabet[0]; len];
    loop {
        for i in 0..len {
            cur[i] = alphabet[idx[i]];
        }
        f(&cur);
        let mut p = len;
        loop {
            if p == 0 {
                return;
            }
            p -= 1;
            idx[p] += 1;
            if idx[p] < alphabet.len() {
                break;
            }
            idx[p] = 0;
        }
    }
}

fn alphabet(nsrc: usize, keys: &[u64], stamps: &[u64]) -> Vec<Op> {
    let mut a = Vec::new();
    for &del in &[false, true] {
        for src in 0..nsrc {
            for &key in keys {
                for &t in stamps {
                    a.push(Op { del, src, key, t });
                }
            }
        }
    }
    a
}

fn mode_c04(w: &mut CaseWriter, args: &Args, rng: &mut Rng) {
    let base = 50_000_000u64;
    let keys = [1u64, 2];
    // (a) within one forgiveness period: 2 origins x 3 stamps (same tick different
    //     counter, next tick, and a same-instant stamp of the other origin)
    let stamps_in = [
        mk(base, 0, 1), mk(base, 1, 1), mk(base + 5, 0, 1),
        mk(base, 0, 2), mk(base + 5, 0, 2), mk(base + 9, 3, 2),
    ];
    // (b) stretched beyond the forgiveness period: exercises rejection
    let stamps_out = [
        mk(base, 0, 1), mk(base + W_TICKS - 1, 0, 1), mk(base + W_TICKS, 0, 1), mk(base + W_TICKS + 1, 0, 1),
        mk(base + 1, 0, 2), mk(base + 2 * W_TICKS + 7, 0, 2),
    ];
    let mut n_ex = 0u64;
    for (label, stamps) in [("in", &stamps_in), ("out", &stamps_out)] {
        for nsrc in [1usize, 2] {
            let alpha = alphabet(nsrc, &keys, &stamps[..]);
            let maxlen = if args.thorough() { 4 } else { 3 };
            for len in 1..=maxlen {
                if len == 4 && nsrc == 2 && label == "out" && !args.extra.contains_key("full") {
                    // 96^4 is too many even for the thorough tier: one key only
                    let alpha1 = alphabet(nsrc, &keys[..1], &stamps[..]);
                    for_each_seq(&alpha1, len, &mut |ops| {
                        history_case_n(w, nsrc, ops, &[], &keys, &stamps[..], "");
                        n_ex += 1;
                    });
                    continue;
                }
                if len == 4 && nsrc == 2 {
                    let alpha1 = alphabet(nsrc, &keys[..1], &stamps[..]);
                    for_each_seq(&alpha1, len, &mut |ops| {
                        history_case_n(w, nsrc, ops, &[], &keys, &stamps[..], "");
                        n_ex += 1;
                    });
                    continue;
                }
                for_each_seq(&alpha, len, &mut |ops| {
                    history_case_n(w, nsrc, ops, &[], &keys, &stamps[..], "");
                    n_ex += 1;
                });
            }
        }
    }
    // (c) all permutations x source assignments of distinct-stamp multisets of 4 and 5 ops
    let n_multisets = if args.thorough() { 3000 } else { 300 };
    for _ in 0..n_multisets {
        let n = 4 + rng.below(2) as usize;
        let mut st: Vec<u64> = stamps_in.to_vec();
        rng.shuffle(&mut st);
        let ops: Vec<Op> = (0..n)
            .map(|i| Op { del: rng.chance(2, 5), src: 0, key: *rng.pick(&keys), t: st[i % st.len()] + ((i / st.len()) as u64) * 256 })
            .collect();
        let mut perm: Vec<usize> = (0..n).collect();
        permute(&mut perm, 0, &mut |p| {
            for mask in 0..(1u32 << n) {
                let arr: Vec<Op> = p
                    .iter()
                    .enumerate()
                    .map(|(pos, &i)| Op { src: ((mask >> pos) & 1) as usize, ..ops[i] })
                    .collect();
                history_case_n(w, 2, &arr, &[], &keys, &stamps_in[..], "");
                n_ex += 1;
            }
        });
    }
    // (d) random long histories over 8 keys x 4 origins, ticks spread over 3 periods
    let n_random = if args.thorough() { 30_000 } else { 3_000 };
    for _ in 0..n_random {
        let nsrc = 1 + rng.below(2) as usize;
        let keys8: Vec<u64> = vec![0, 1, 2, 3, (1 << 63) - 1, 1 << 63, u64::MAX, 77];
        let spread = *rng.pick(&[10u64, W_TICKS - 1, W_TICKS + 1, 3 * W_TICKS]);
        let b = *rng.pick(&[1u64, 2, 250, base]);
        let len = 1 + rng.below(30) as usize;
        let mut ops = Vec::with_capacity(len);
        let mut probes = Vec::new();
        for _ in 0..len {
            let t = mk(b + rng.below(spread), *rng.pick(&[0u64, 0, 1, 65535]), 1 + rng.below(4));
            probes.push(t);
            ops.push(Op { del: rng.chance(2, 5), src: rng.below(nsrc as u64) as usize, key: *rng.pick(&keys8), t });
        }
        probes.sort();
        probes.dedup();
        probes.truncate(12);
        history_case_n(w, nsrc, &ops, &[], &keys8, &probes, "");
    }
    w.stats.add("exhaustive_histories", n_ex);
}

fn mode_c08(w: &mut CaseWriter, args: &Args, rng: &mut Rng) {
    // stamps spanning ~3 forgiveness periods, two origins
    let base = 60_000_000u64;
    // per origin: stamps one forgiveness period (+1 tick) apart, plus two in between
    let mut stamps: Vec<u64> = Vec::new();
    let steps = if args.thorough() { 4 } else { 3 };
    for j in 0..steps {
        for node in [1u64, 2] {
            stamps.push(mk(base + j * (W_TICKS + 1) + node * 3, j % 2, node));
        }
    }
    stamps.push(mk(base + W_TICKS / 2, 0, 1));
    stamps.push(mk(base + W_TICKS + W_TICKS / 2, 0, 2));
    stamps.sort();
    let keys = [1u64, 2];
    let mut n_ex = 0u64;
    // (histories of four operations with every purge placement are ~10^8 cases over ten stamps:
    // the thorough tier widens the stamp universe and drops the thinning instead)
    let maxlen = 3;
    for nsrc in [1usize, 2] {
        // ascending-by-time multisets (timely arrival) and all their source assignments,
        // with purges after every subset of positions
        let n = stamps.len();
        for len in 1..=maxlen {
            let mut idx = vec![0usize; len];
            'outer: loop {
                // strictly increasing stamp indices = timely arrival order
                let distinct = (0..len).all(|x| (0..x).all(|y| idx[x] != idx[y]));
                let ascending = idx.windows(2).all(|p| p[0] < p[1]);
                if distinct && (ascending || len <= 2 || (idx.iter().sum::<usize>() + len) % 5 == 0) {
                    let nkinds = 1u32 << len; // insert/delete per op
                    for kinds in 0..nkinds {
                        for keymask in 0..(1u32 << len) {
                            let srcs_n = if nsrc == 2 { 1u32 << len } else { 1 };
                            for srcmask in 0..srcs_n {
                                // thin out the product in the quick tier
                                if !args.thorough() && len == 3 && (kinds + keymask * 3 + srcmask * 5 + idx[0] as u32) % 7 != 0 {
                                    continue;
                                }
                                let ops: Vec<Op> = (0..len)
                                    .map(|i| Op {
                                        del: (kinds >> i) & 1 == 1,
                                        src: ((srcmask >> i) & 1) as usize,
                                        key: keys[((keymask >> i) & 1) as usize],
                                        t: stamps[idx[i]],
                                    })
                                    .collect();
                                for pm in 1..(1u32 << (len + 1)) {
                                    let purge_at: Vec<usize> = (0..=len).filter(|i| (pm >> i) & 1 == 1).collect();
                                    history_case_n(w, nsrc, &ops, &purge_at, &keys, &stamps, "");
                                    n_ex += 1;
                                }
                            }
                        }
                    }
                }
                let mut p = len;
                loop {
                    if p == 0 { break 'outer; }
                    p -= 1;
                    idx[p] += 1;
                    if idx[p] < n { break; }
                    idx[p] = 0;
                }
            }
        }
    }
    // random histories: mostly timely, sometimes late arrivals (model comparison only), purges anywhere
    let n_random = if args.thorough() { 40_000 } else { 4_000 };
    for _ in 0..n_random {
        let nsrc = 1 + rng.below(2) as usize;
        let len = 2 + rng.below(14) as usize;
        let mut tick = *rng.pick(&[1u64, 2, 300, base]);
        let mut ops = Vec::new();
        let mut probes = Vec::new();
        let keys6 = [1u64, 2, 3, 4, 5, 6];
        for _ in 0..len {
            tick += *rng.pick(&[0u64, 1, 7, W_TICKS / 3, W_TICKS - 1, W_TICKS, W_TICKS + 1, 2 * W_TICKS]);
            let late = if rng.chance(1, 8) { rng.below(2 * W_TICKS) } else { rng.below(W_TICKS / 2) };
            let t = mk(tick.saturating_sub(late).max(1), rng.below(3), 1 + rng.below(3));
            if ops.iter().any(|o: &Op| o.t == t) { continue; }
            probes.push(t);
            ops.push(Op { del: rng.chance(1, 2), src: rng.below(nsrc as u64) as usize, key: *rng.pick(&keys6), t });
        }
        let purge_at: Vec<usize> = (0..=ops.len()).filter(|_| rng.chance(1, 3)).collect();
        probes.truncate(10);
        history_case_n(w, nsrc, &ops, &purge_at, &keys6, &probes, "");
    }
    // structured "purge-rich" histories: phase 1 puts/deletes; phase 2 (more than one
    // period later) every origin is heard again on every source, so the cut-off passes the
    // phase-1 deletes; purge; phase 3 new operations and (late) re-deliveries of phase-1
    // operations; purge again.
    let n_rich = if args.thorough() { 40_000 } else { 4_000 };
    for _ in 0..n_rich {
        let nsrc = 1 + rng.below(2) as usize;
        let keys6 = [1u64, 2, 3, 4, 5, 6];
        let norig = 1 + rng.below(3);
        let b0 = *rng.pick(&[1u64, 5, base]);
        let mut ops: Vec<Op> = Vec::new();
        let mut purge_at: Vec<usize> = Vec::new();
        let n1 = 1 + rng.below(5);
        for i in 0..n1 {
            let t = mk(b0 + i * 3 + rng.below(3), rng.below(2), 1 + rng.below(norig));
            if ops.iter().any(|o| o.t == t) { continue; }
            ops.push(Op { del: rng.chance(3, 5), src: rng.below(nsrc as u64) as usize, key: *rng.pick(&keys6), t });
        }
        let phase1 = ops.clone();
        if rng.chance(1, 3) { purge_at.push(ops.len()); }
        let gap = *rng.pick(&[W_TICKS - 5, W_TICKS + 20, W_TICKS + 20, 2 * W_TICKS]);
        let mut c = 0u64;
        for origin in 1..=norig {
            for src in 0..nsrc {
                if rng.chance(1, 8) { continue; } // sometimes one (source, origin) stays silent
                c += 1;
                let t = mk(b0 + gap + c, 0, origin);
                ops.push(Op { del: rng.chance(1, 4), src, key: *rng.pick(&keys6), t });
            }
        }
        purge_at.push(ops.len());
        let n3 = rng.below(4);
        for i in 0..n3 {
            if rng.chance(1, 2) && !phase1.is_empty() {
                // late re-delivery of a phase-1 operation (same stamp): duplicates are allowed
                // in the model comparison; the oracle skips LWW when stamps repeat
                let o = *rng.pick(&phase1);
                ops.push(Op { src: rng.below(nsrc as u64) as usize, ..o });
            } else {
                let t = mk(b0 + gap + 50 + i, 1, 1 + rng.below(norig));
                ops.push(Op { del: rng.chance(1, 2), src: rng.below(nsrc as u64) as usize, key: *rng.pick(&keys6), t });
            }
        }
        if rng.chance(1, 2) { purge_at.push(ops.len()); }
        let mut probes: Vec<u64> = ops.iter().map(|o| o.t).collect();
        probes.sort(); probes.dedup(); probes.truncate(10);
        history_case_n(w, nsrc, &ops, &purge_at, &keys6, &probes, "");
    }
    // merges in the purging replica's further life: replica 0 runs phase 1 (puts/deletes),
    // hears every origin again more than a period later, purges; replica 1 is a STALE peer that
    // has seen only (some of) phase 1; replica 0 merges it in; then late operations of the
    // deleting origins - not newer than a purged delete - must still be refused, with the answer
    // of will_apply, and the cut-off probes must not move back.
    let n_merge = if args.thorough() { 20_000 } else { 3_000 };
    for _ in 0..n_merge {
        let nsrc = 1 + rng.below(2) as usize;
        let keys6 = [1u64, 2, 3, 4, 5, 6];
        let norig = 1 + rng.below(2);
        let b0 = *rng.pick(&[5u64, base]);
        let mut phase1: Vec<Op> = Vec::new();
        for i in 0..(2 + rng.below(5)) {
            let t = mk(b0 + i * 3 + rng.below(3), rng.below(2), 1 + rng.below(norig));
            if phase1.iter().any(|o| o.t == t) { continue; }
            phase1.push(Op { del: rng.chance(3, 5), src: rng.below(nsrc as u64) as usize, key: *rng.pick(&keys6), t });
        }
        let mut toks: Vec<String> = Vec::new();
        let mut probes: Vec<u64> = phase1.iter().map(|o| o.t).collect();
        probes.sort(); probes.dedup(); probes.truncate(8);
        // the stale peer (register 1): a prefix of phase 1, every origin through every source
        toks.push("@1".into());
        let cut = rng.below(phase1.len() as u64 + 1) as usize;
        for o in &phase1[..cut] {
            for src in 0..nsrc {
                toks.push(Op { src, ..*o }.tok());
            }
        }
        // the purging replica (register 0)
        toks.push("@0".into());
        for o in &phase1 { toks.push(o.tok()); }
        let gap = *rng.pick(&[W_TICKS + 20, 2 * W_TICKS]);
        let mut c = 0u64;
        for origin in 1..=norig {
            for src in 0..nsrc {
                c += 1;
                toks.push(Op { del: false, src, key: 0x20 + c, t: mk(b0 + gap + c, 0, origin) }.tok());
            }
        }
        toks.push("p".into());
        toks.push(probes_tok(&probes));
        toks.push("M:1".into());
        toks.push(probes_tok(&probes));
        // late operations of phase-1 stamps (and one tick below), any key, any source
        let mut late: Vec<(bool, usize, u64, u64)> = Vec::new();
        for o in &phase1 {
            if rng.chance(2, 3) {
                late.push((rng.chance(1, 2), rng.below(nsrc as u64) as usize, *rng.pick(&keys6), o.t));
            }
        }
        for (del, src, key, t) in &late {
            toks.push(format!("w:{:x}:{:x}", key, t));
            toks.push(Op { del: *del, src: *src, key: *key, t: *t }.tok());
        }
        toks.push(probes_tok(&probes));
        let case = format!("seq {} 0 {}", nsrc, toks.join(" "));
        let tv: Vec<&str> = toks.iter().map(|s| s.as_str()).collect();
        let res = match nsrc {
            1 => no_panic(|| interpret::<OrSWotSet<1>>(&tv)),
            _ => no_panic(|| interpret::<OrSWotSet<2>>(&tv)),
        };
        let res = match res {
            Some(r) => r,
            None => {
                w.case(&case, "panic");
                w.fail("panic", &case, "the set panicked");
                continue;
            },
        };
        w.case(&case, &res);
        w.stats.hit("purge_then_merge_of_a_stale_peer");
        // oracle on the implementation's own output: the cut-off bits after the merge are not
        // below those after the purge (a probe that was before the cut-off stays before it)
        let dumps: Vec<&str> = res.split_whitespace().filter(|t| t.starts_with('E')).collect();
        if dumps.len() >= 2 {
            let bits = |d: &str| d.rsplit("B[").next().unwrap_or("").trim_end_matches(']').to_string();
            let (b_purge, b_merge) = (bits(dumps[0]), bits(dumps[1]));
            if b_purge.chars().zip(b_merge.chars()).any(|(x, y)| x == '1' && y == '0') {
                w.fail("cut-off-moved-back-by-a-merge", &case, &format!("after purge {b_purge}, after merge {b_merge}"));
            }
        }
    }
    w.stats.add("exhaustive_histories", n_ex);
}

/// C05: pairs of replicas built from one history, diff, repair in both batch orders and
/// interleaved, and the symmetric exchange.
fn mode_c05(w: &mut CaseWriter, args: &Args, rng: &mut Rng) {
    let base = 70_000_000u64;
    let keys = [1u64, 2, 3];
    let pool_in: Vec<u64> = vec![
        mk(base, 0, 1), mk(base, 1, 1), mk(base + 3, 0, 1), mk(base, 0, 2), mk(base + 3, 0, 2), mk(base + 4, 1, 2),
    ];
    let pool_out: Vec<u64> = vec![
        mk(base, 0, 1), mk(base + W_TICKS, 0, 1), mk(base + W_TICKS + 1, 1, 1), mk(base + 1, 0, 2),
        mk(base + 2 * W_TICKS, 0, 2), mk(base + 2 * W_TICKS + 1, 0, 2),
    ];
    let mut n_pairs = 0u64;
    // bounded-exhaustive: one history H of <= 3 ops over (kind x key x stamp index ascending);
    // replica A applies a subset, replica B applies a subset (origin order preserved)
    let hl = if args.thorough() { 4 } else { 3 };
    for (pool, label) in [(&pool_in, "in"), (&pool_out, "out")] {
        let n = pool.len();
        for len in 1..=hl {
            let mut idx = vec![0usize; len];
            'outer: loop {
                if idx.windows(2).all(|p| p[0] < p[1]) {
                    for kinds in 0..(1u32 << len) {
                        for keysel in 0..3u32.pow(len as u32) {
                            if !args.thorough() && len == 3 && (kinds + keysel) % 2 == 1 { continue; }
                            let mut ks = keysel;
                            let h: Vec<Op> = (0..len).map(|i| {
                                let k = keys[(ks % 3) as usize]; ks /= 3;
                                Op { del: (kinds >> i) & 1 == 1, src: 0, key: k, t: pool[idx[i]] }
                            }).collect();
                            for suba in 0..(1u32 << len) {
                                for subb in 0..(1u32 << len) {
                                    let a: Vec<Op> = (0..len).filter(|i| (suba >> i) & 1 == 1).map(|i| h[i]).collect();
                                    let b: Vec<Op> = (0..len).filter(|i| (subb >> i) & 1 == 1).map(|i| h[i]).collect();
                                    pair_case(w, &a, &b, pool, &keys, label == "in");
                                    n_pairs += 1;
                                }
                            }
                        }
                    }
                }
                let mut p = len;
                loop {
                    if p == 0 { break 'outer; }
                    p -= 1;
                    idx[p] += 1;
                    if idx[p] < n { break; }
                    idx[p] = 0;
                }
            }
        }
    }
    // random larger pairs, replicas may also have purged
    let n_random = if args.thorough() { 30_000 } else { 3_000 };
    for _ in 0..n_random {
        let spread = *rng.pick(&[50u64, W_TICKS - 1, 3 * W_TICKS]);
        let len = 2 + rng.below(12) as usize;
        let keys8 = [1u64, 2, 3, 4, 5, 6, 7, 8];
        let mut h: Vec<Op> = Vec::new();
        for _ in 0..len {
            let t = mk(base + rng.below(spread), rng.below(2), 1 + rng.below(3));
            if h.iter().any(|o| o.t == t) { continue; }
            h.push(Op { del: rng.chance(2, 5), src: rng.below(2) as usize, key: *rng.pick(&keys8), t });
        }
        h.sort_by_key(|o| o.t);
        let a: Vec<Op> = h.iter().filter(|_| rng.chance(2, 3)).cloned().collect();
        let b: Vec<Op> = h.iter().filter(|_| rng.chance(2, 3)).cloned().collect();
        let probes: Vec<u64> = h.iter().map(|o| o.t).take(12).collect();
        pair_case(w, &a, &b, &probes, &keys8, spread < W_TICKS);
    }
    w.stats.add("pairs", n_pairs);
}

fn pair_case(w: &mut CaseWriter, a_ops: &[Op], b_ops: &[Op], probes: &[u64], _keys: &[u64], within: bool) {
    type S = OrSWotSet<2>;
    let mut a = S::default();
    let mut b = S::default();
    for o in a_ops { if o.del { a.del(o.src, o.key, o.t); } else { a.ins(o.src, o.key, o.t); } }
    for o in b_ops { if o.del { b.del(o.src, o.key, o.t); } else { b.ins(o.src, o.key, o.t); } }
    let (m, r) = a.diff_(&b);
    let (m2, r2) = b.diff_(&a);
    // tokens: build A in set 0, B in set 1; diff; repair copies in sets 2 and 3 (both batch
    // orders); then the symmetric exchange
    let mut toks: Vec<String> = vec!["@0".into()];
    toks.extend(a_ops.iter().map(|o| o.tok()));
    toks.push("@1".into());
    toks.extend(b_ops.iter().map(|o| o.tok()));
    toks.push("@0".into());
    toks.push("F:1".into());
    toks.push(probes_tok(probes));
    let rem: Vec<Op> = r.iter().map(|(k, t)| Op { del: true, src: 1, key: *k, t: *t }).collect();
    let modi: Vec<Op> = m.iter().map(|(k, t)| Op { del: false, src: 1, key: *k, t: *t }).collect();
    // set 2 := A then removals, modifications ; set 3 := A then modifications, removals
    for (set, first, second) in [(2, &rem, &modi), (3, &modi, &rem)] {
        toks.push(format!("@{set}"));
        toks.extend(a_ops.iter().map(|o| o.tok()));
        toks.extend(first.iter().map(|o| o.tok()));
        toks.extend(second.iter().map(|o| o.tok()));
        toks.push("F:1".into());
        toks.push(probes_tok(probes));
    }
    // symmetric: B applies its difference against A (removals first) in place
    toks.push("@1".into());
    toks.push("F:0".into());
    toks.extend(r2.iter().map(|(k, t)| Op { del: true, src: 1, key: *k, t: *t }.tok()));
    toks.extend(m2.iter().map(|(k, t)| Op { del: false, src: 1, key: *k, t: *t }.tok()));
    toks.push(probes_tok(probes));
    let case = format!("seq 2 0 {}", toks.join(" "));
    let tv: Vec<&str> = toks.iter().map(|s| s.as_str()).collect();
    let res = no_panic(|| interpret::<S>(&tv)).unwrap_or_else(|| "panic".into());
    w.case(&case, &res);
    if !m.is_empty() || !r.is_empty() { w.stats.hit("pair_nonempty_diff"); }

    // ---- oracle (independent of the model) ----
    // (1) exactness of diff(a, b)
    let (be, bd) = b.contents();
    let mut want_m: Pairs = Vec::new();
    let mut want_r: Pairs = Vec::new();
    for (list, out) in [(&be, &mut want_m), (&bd, &mut want_r)] {
        for (k, t) in list.iter() {
            let wanted = match view_of(&a, *k) {
                Some((u, _)) => ts(u) < ts(*t),
                None => a.will(PROBE_KEY, *t), // not before a's cut-off
            };
            if wanted { out.push((*k, *t)); }
        }
    }
    want_m.sort(); want_r.sort();
    if want_m != m || want_r != r {
        w.fail("diff-not-exact", &case, &format!("diff=({:?},{:?}) expected=({:?},{:?})", m, r, want_m, want_r));
    }
    // (2) one exchange repairs, in both batch orders and an interleaved order, when no
    //     listed operation is refused at its arrival
    let orders: Vec<Vec<Op>> = {
        let mut v = vec![[rem.clone(), modi.clone()].concat(), [modi.clone(), rem.clone()].concat()];
        let mut inter = Vec::new();
        let (mut i, mut j) = (0, 0);
        while i < rem.len() || j < modi.len() {
            if i < rem.len() { inter.push(rem[i]); i += 1; }
            if j < modi.len() { inter.push(modi[j]); j += 1; }
        }
        v.push(inter);
        v
    };
    let mut a_repaired: Option<S> = None;
    for ord in &orders {
        let mut x = a.clone();
        let mut all_accepted = true;
        for o in ord {
            if !x.will(PROBE_KEY, o.t) { all_accepted = false; }
            if o.del { x.del(o.src, o.key, o.t); } else { x.ins(o.src, o.key, o.t); }
        }
        if all_accepted {
            w.stats.hit("repair_all_accepted");
            let (m3, r3) = x.diff_(&b);
            if !m3.is_empty() || !r3.is_empty() {
                w.fail("exchange-does-not-repair", &case, &format!("left over ({:?},{:?}) after {:?}", m3, r3, ord.iter().map(|o| o.tok()).collect::<Vec<_>>()));
            }
            a_repaired = Some(x);
        } else {
            w.stats.hit("repair_with_refusal");
        }
    }
    // (3) symmetric exchange: identical contents when nothing either holds is before the
    //     other's cut-off (guaranteed within one forgiveness period)
    if within {
        if let Some(x) = a_repaired {
            let mut y = b.clone();
            for (k, t) in &r2 { y.del(1, *k, *t); }
            for (k, t) in &m2 { y.ins(1, *k, *t); }
            if x.contents() != y.contents() {
                w.fail("mutual-repair-disagrees", &case, &format!("a'={:?} b'={:?}", x.contents(), y.contents()));
            }
            w.stats.hit("mutual_repair_checked");
        }
    }
}

/// C03: replicas of one history, merged in every order and grouping.
fn mode_c03(w: &mut CaseWriter, args: &Args, rng: &mut Rng) {
    let base = 75_000_000u64;
    let keys = [1u64, 2, 3];
    let pool_in: Vec<u64> = vec![mk(base, 0, 1), mk(base, 1, 1), mk(base + 3, 0, 1), mk(base, 0, 2), mk(base + 3, 0, 2), mk(base + 4, 1, 2)];
    let pool_out: Vec<u64> = vec![mk(base, 0, 1), mk(base + W_TICKS, 0, 1), mk(base + W_TICKS + 1, 1, 1), mk(base + 1, 0, 2), mk(base + 2 * W_TICKS, 0, 2), mk(base + 2 * W_TICKS + 1, 0, 2)];
    let mut n_ex = 0u64;
    let hl = if args.thorough() { 4 } else { 3 };
    for (pool, within) in [(&pool_in, true), (&pool_out, false)] {
        let n = pool.len();
        for len in 1..=hl {
            let mut idx = vec![0usize; len];
            'outer: loop {
                if idx.windows(2).all(|p| p[0] < p[1]) {
                    for kinds in 0..(1u32 << len) {
                        for keysel in 0..3u32.pow(len as u32) {
                            if len == 3 && (kinds + keysel) % (if args.thorough() { 1 } else { 3 }) != 0 { continue; }
                            if len == 4 && (kinds * 7 + keysel) % 11 != 0 { continue; }
                            let mut ks = keysel;
                            let h: Vec<Op> = (0..len).map(|i| {
                                let k = keys[(ks % 3) as usize]; ks /= 3;
                                Op { del: (kinds >> i) & 1 == 1, src: (i % 2), key: k, t: pool[idx[i]] }
                            }).collect();
                            // three replicas: every triple of subsets for len <= 2, a rotating sample beyond
                            let nsub = 1u32 << len;
                            for sa in 0..nsub {
                                for sb in 0..nsub {
                                    let sc_list: Vec<u32> = if len <= 2 { (0..nsub).collect() } else { vec![(sa * 5 + sb * 3 + 1) % nsub, nsub - 1] };
                                    for sc in sc_list {
                                        let sub = |m: u32, rev: bool| -> Vec<Op> {
                                            let mut v: Vec<Op> = (0..len).filter(|i| (m >> i) & 1 == 1).map(|i| h[i]).collect();
                                            if rev { v.reverse(); }
                                            v
                                        };
                                        triple_case(w, &sub(sa, false), &sub(sb, true), &sub(sc, false), pool, &keys, within);
                                        n_ex += 1;
                                    }
                                }
                            }
                        }
                    }
                }
                let mut p = len;
                loop {
                    if p == 0 { break 'outer; }
                    p -= 1;
                    idx[p] += 1;
                    if idx[p] < n { break; }
                    idx[p] = 0;
                }
            }
        }
    }
    // premise (B) of the property: every replica has applied a gap-free prefix of every origin's
    // operations (each origin's operations in stamp order; any interleaving of the origins, any
    // sources, repeats allowed); the history spans several forgiveness periods.  The laws must
    // hold although cut-offs now refuse and drop things.
    let prefix_replica = |h: &[Op], cut: &[usize], order: u32, dup: bool| -> Vec<Op> {
        let mut per: Vec<Vec<Op>> = Vec::new();
        for node in [1u64, 2, 3] {
            let mut v: Vec<Op> = h.iter().filter(|o| node_of(o.t) == node).cloned().collect();
            v.sort_by_key(|o| o.t);
            per.push(v);
        }
        let lens: Vec<usize> = per.iter().enumerate().map(|(i, v)| v.len().min(cut[i % cut.len()])).collect();
        let mut out: Vec<Op> = Vec::new();
        match order % 3 {
            0 => for (i, v) in per.iter().enumerate() { out.extend(v[..lens[i]].iter().cloned()); },
            1 => for (i, v) in per.iter().enumerate().rev() { out.extend(v[..lens[i]].iter().cloned()); },
            _ => {
                let mut pos = vec![0usize; per.len()];
                loop {
                    let mut any = false;
                    for i in 0..per.len() {
                        if pos[i] < lens[i] { out.push(per[i][pos[i]]); pos[i] += 1; any = true; }
                    }
                    if !any { break; }
                }
            },
        }
        // sources: alternate by position, shifted by the order variant
        for (i, o) in out.iter_mut().enumerate() { o.src = (i + order as usize) % 2; }
        if dup && !out.is_empty() {
            // a repeated delivery of an already applied operation through the other source
            let mut again = out[0];
            again.src = 1 - again.src;
            out.push(again);
        }
        out
    };
    let mut n_prefix = 0u64;
    {
        let pool = &pool_out;
        let n = pool.len();
        for len in 2..=hl {
            let mut idx = vec![0usize; len];
            'outer2: loop {
                if idx.windows(2).all(|p| p[0] < p[1]) {
                    for kinds in 0..(1u32 << len) {
                        for keysel in 0..3u32.pow(len as u32) {
                            if (kinds * 5 + keysel) % (if args.thorough() { 2 } else { 7 }) != 0 { continue; }
                            let mut ks = keysel;
                            let h: Vec<Op> = (0..len).map(|i| {
                                let k = keys[(ks % 3) as usize]; ks /= 3;
                                Op { del: (kinds >> i) & 1 == 1, src: 0, key: k, t: pool[idx[i]] }
                            }).collect();
                            let n1 = h.iter().filter(|o| node_of(o.t) == 1).count();
                            let n2 = h.iter().filter(|o| node_of(o.t) == 2).count();
                            let mut cuts: Vec<[usize; 2]> = Vec::new();
                            for c1 in 0..=n1 { for c2 in 0..=n2 { cuts.push([c1, c2]); } }
                            for (ia, ca) in cuts.iter().enumerate() {
                                for (ib, cb) in cuts.iter().enumerate() {
                                    let cc = cuts[(ia * 3 + ib + 1) % cuts.len()];
                                    let var = (ia + 2 * ib) as u32;
                                    let a = prefix_replica(&h, ca, var, false);
                                    let b = prefix_replica(&h, cb, var + 1, ia % 2 == 0);
                                    let c = prefix_replica(&h, &cc, var + 2, false);
                                    triple_case(w, &a, &b, &c, pool, &keys, true);
                                    w.stats.hit("triple_gap_free_prefixes");
                                    n_prefix += 1;
                                }
                            }
                        }
                    }
                }
                let mut p = len;
                loop {
                    if p == 0 { break 'outer2; }
                    p -= 1;
                    idx[p] += 1;
                    if idx[p] < n { break; }
                    idx[p] = 0;
                }
            }
        }
    }
    let n_prefix_random = if args.thorough() { 10_000 } else { 1_000 };
    for _ in 0..n_prefix_random {
        let spread = *rng.pick(&[2 * W_TICKS, 5 * W_TICKS, 40 * W_TICKS]);
        let keys8 = [1u64, 2, 3, 4, 5, 6, 7, 8];
        let mut h: Vec<Op> = Vec::new();
        for _ in 0..(3 + rng.below(14)) {
            let t = mk(base + rng.below(spread), rng.below(2), 1 + rng.below(3));
            if h.iter().any(|o| o.t == t) { continue; }
            h.push(Op { del: rng.chance(2, 5), src: 0, key: *rng.pick(&keys8), t });
        }
        let mut mk_rep = |rng: &mut Rng| {
            let cut = [rng.below(8) as usize, rng.below(8) as usize, rng.below(8) as usize];
            let order = rng.below(3) as u32;
            let dup = rng.chance(1, 3);
            prefix_replica(&h, &cut, order, dup)
        };
        let (a, b, c) = (mk_rep(rng), mk_rep(rng), mk_rep(rng));
        let probes: Vec<u64> = h.iter().map(|o| o.t).take(10).collect();
        triple_case(w, &a, &b, &c, &probes, &keys8, true);
        w.stats.hit("triple_gap_free_prefixes");
        n_prefix += 1;
    }
    w.stats.add("prefix_triples", n_prefix);
    let n_random = if args.thorough() { 20_000 } else { 2_000 };
    for _ in 0..n_random {
        let spread = *rng.pick(&[60u64, W_TICKS - 1, 3 * W_TICKS]);
        let keys8 = [1u64, 2, 3, 4, 5, 6, 7, 8];
        let mut h: Vec<Op> = Vec::new();
        for _ in 0..(2 + rng.below(12)) {
            let t = mk(base + rng.below(spread), rng.below(2), 1 + rng.below(3));
            if h.iter().any(|o| o.t == t) { continue; }
            h.push(Op { del: rng.chance(2, 5), src: rng.below(2) as usize, key: *rng.pick(&keys8), t });
        }
        let pick = |rng: &mut Rng| -> Vec<Op> { let mut v: Vec<Op> = h.iter().filter(|_| rng.chance(2, 3)).cloned().collect(); rng.shuffle(&mut v); v };
        let (a, b, c) = (pick(rng), pick(rng), pick(rng));
        let probes: Vec<u64> = h.iter().map(|o| o.t).take(10).collect();
        triple_case(w, &a, &b, &c, &probes, &keys8, spread < W_TICKS);
    }
    w.stats.add("triples", n_ex);
}

fn triple_case(w: &mut CaseWriter, a_ops: &[Op], b_ops: &[Op], c_ops: &[Op], probes: &[u64], keys: &[u64], within: bool) {
    type S = OrSWotSet<2>;
    let mut toks: Vec<String> = Vec::new();
    for (i, ops) in [a_ops, b_ops, c_ops].iter().enumerate() {
        toks.push(format!("@{}", i));
        toks.extend(ops.iter().map(|o| o.tok()));
    }
    let st = probes_tok(probes);
    // 3 = a.b   4 = b.a   5 = (a.b).c   6 = b.c then 7 = a.(b.c)
    for t in ["@3", "C:0", "M:1", &st, "@4", "C:1", "M:0", &st, "@5", "C:3", "M:2", &st, "@6", "C:1", "M:2", "@7", "C:0", "M:6", &st,
              "@6", "C:0", "M:0", &st, "@6", "C:3", "M:1", &st] {
        toks.push(t.to_string());
    }
    let case = format!("seq 2 0 {}", toks.join(" "));
    let tv: Vec<&str> = toks.iter().map(|s| s.as_str()).collect();
    let res = no_panic(|| interpret::<S>(&tv)).unwrap_or_else(|| "panic".into());
    w.case(&case, &res);
    // ---- oracle ----
    let build = |ops: &[Op]| { let mut s = S::default(); for o in ops { if o.del { s.del(o.src, o.key, o.t); } else { s.ins(o.src, o.key, o.t); } } s };
    let (a, b, c) = (build(a_ops), build(b_ops), build(c_ops));
    let m = |x: &S, y: &S| { let mut z = x.clone(); z.merge_(y); z };
    if within {
        // (the flag says: one of the property's two premises holds for this triple)
        w.stats.hit("triple_under_a_premise");
        let ab = m(&a, &b);
        let ba = m(&b, &a);
        if ab.contents() != ba.contents() { w.fail("merge-not-commutative", &case, &format!("{:?} vs {:?}", ab.contents(), ba.contents())); }
        let abc1 = m(&ab, &c);
        let abc2 = m(&a, &m(&b, &c));
        if abc1.contents() != abc2.contents() { w.fail("merge-not-associative", &case, &format!("{:?} vs {:?}", abc1.contents(), abc2.contents())); }
        if m(&a, &a).contents() != a.contents() { w.fail("merge-not-idempotent", &case, ""); }
        if m(&ab, &b).contents() != ab.contents() { w.fail("re-merge-changes-state", &case, ""); }
        let cba = m(&c, &ba);
        for k in keys {
            if abc1.get_(*k) != cba.get_(*k) { w.fail("merged-replicas-distinguishable", &case, &format!("key {:x}", k)); }
        }
        // the merged live ids are the per-key greatest-stamp operations of what a and b hold
        let (ea, da) = a.contents(); let (eb, db) = b.contents();
        let mut best: BTreeMap<u64, (u64, bool)> = BTreeMap::new();
        for (list, dead) in [(&ea, false), (&da, true), (&eb, false), (&db, true)] {
            for (k, t) in list.iter() {
                let e = best.entry(*k).or_insert((*t, dead));
                if ts(e.0) < ts(*t) { *e = (*t, dead); }
            }
        }
        let want_live: Pairs = best.iter().filter(|(_, v)| !v.1).map(|(k, v)| (*k, v.0)).collect();
        if ab.contents().0 != want_live { w.fail("merge-not-per-key-maximum", &case, &format!("{:?} vs {:?}", ab.contents().0, want_live)); }
    }
}

fn permute(p: &mut Vec<usize>, k: usize, f: &mut dyn FnMut(&[usize])) {
    if k == p.len() {
        f(p);
        return;
    }
    for i in k..p.len() {
        p.swap(k, i);
        permute(p, k + 1, f);
        p.swap(k, i);
    }
}

fn replay(w: &mut CaseWriter, path: &std::path::Path) {
    for line in std::fs::read_to_string(path).unwrap().lines() {
        let toks: Vec<&str> = line.split_whitespace().collect();
        if toks.len() < 3 || toks[0] != "seq" {
            continue;
        }
        let nsrc: usize = toks[1].parse().unwrap();
        // Re-derive the history (ops, purges) from the tokens so the oracle runs too.
        let mut ops = Vec::new();
        let mut purge_at = Vec::new();
        let mut keys = Vec::new();
        let mut probes: Vec<u64> = Vec::new();
        let mut plain_history = true;
        for t in &toks[3..] {
            let p: Vec<&str> = t.split(':').collect();
            match p.as_slice() {
                ["i", s, k, ts_] | ["d", s, k, ts_] => ops.push(Op {
                    del: p[0] == "d",
                    src: s.parse().unwrap(),
                    key: u64::from_str_radix(k, 16).unwrap(),
                    t: u64::from_str_radix(ts_, 16).unwrap(),
                }),
                ["p"] => purge_at.push(ops.len()),
                ["g", k] => keys.push(u64::from_str_radix(k, 16).unwrap()),
                ["S", pr] => {
                    probes = pr.split(',').filter(|s| !s.is_empty()).map(|s| u64::from_str_radix(s, 16).unwrap()).collect()
                },
                ["w", _, _] | ["S"] => {},
                _ => plain_history = false,
            }
        }
        if plain_history {
            history_case_n(w, nsrc, &ops, &purge_at, &keys, &probes, "");
        } else {
            let res = no_panic(|| interpret_n(nsrc, &toks[3..])).unwrap_or_else(|| "panic".into());
            w.case(line, &res);
        }
    }
}

fn main() {
    quiet_panics();
    let args = Args::parse();
    let mut rng = Rng::new(args.seed);
    let mode = args.extra.get("mode").cloned().unwrap_or_else(|| "c04".into());
    let mut w = CaseWriter::new(&args.dir, "orswot");
    if let Some(path) = &args.replay {
        replay(&mut w, path);
        w.finish(&[]);
        return;
    }
    match mode.as_str() {
        "c04" => mode_c04(&mut w, &args, &mut rng),
        "c08" => mode_c08(&mut w, &args, &mut rng),
        "c05" => mode_c05(&mut w, &args, &mut rng),
        "c03" => mode_c03(&mut w, &args, &mut rng),
        _ => panic!("unknown mode"),
    }
    w.finish(&[]);
}
