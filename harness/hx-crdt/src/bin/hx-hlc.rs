//! hx-hlc: implementation executor for C09 (hybrid logical clock send/recv).
//!
//! A case is a history on one clock: `run <c0> <ev>...` with `s:<wall>` (send at wall
//! clock `wall`, in 4 ms ticks since the datacake epoch) and `r:<wall>:<msg>` (recv
//! of the remote stamp `msg`).  The wall clock is injected through the
//! `verif-hooks` override of `get_datacake_timestamp()`.

use std::time::Duration;

use datacake_crdt::{verif, HLCTimestamp, TimestampError};
use hxcommon::{no_panic, quiet_panics, Args, CaseWriter, Rng};

const DRIFT: u64 = 4100 * 250;
const TS_MAX: u64 = (1 << 32) - 1;
const WALL_MAX: u64 = TS_MAX * 250 + 249;

#[derive(Clone, Copy)]
enum Ev {
    Send(u64),
    Recv(u64, u64),
}

fn mk(tick: u64, cnt: u64, node: u64) -> u64 {
    ((tick / 250) << 32) | ((tick % 250) << 24) | (cnt << 8) | node
}

fn tick_of(v: u64) -> u64 {
    (v >> 32) * 250 + ((v >> 24) & 0xFF)
}

fn valid(v: u64) -> bool {
    ((v >> 24) & 0xFF) <= 249
}

fn set_wall(tick: u64, jitter_us: u64) {
    verif::set_wall_clock(Duration::from_micros(tick * 4000 + jitter_us % 4000));
}

fn err_name(e: &TimestampError) -> &'static str {
    match e {
        TimestampError::ClockDrift => "err:drift",
        TimestampError::Overflow => "err:overflow",
        TimestampError::DuplicatedNode(_) => "err:dup",
    }
}

fn run_case(w: &mut CaseWriter, c0: u64, evs: &[Ev], jitter: u64) {
    let mut case = format!("run {:x}", c0);
    for e in evs {
        match e {
            Ev::Send(wl) => case.push_str(&format!(" s:{:x}", wl)),
            Ev::Recv(wl, m) => case.push_str(&format!(" r:{:x}:{:x}", wl, m)),
        }
    }
    let mut clock = HLCTimestamp::from_u64(c0);
    let mut out: Vec<String> = Vec::new();
    // oracle state
    let all_valid = valid(c0)
        && evs.iter().all(|e| match e {
            Ev::Send(wl) => *wl <= WALL_MAX,
            Ev::Recv(wl, m) => *wl <= WALL_MAX && valid(*m),
        });
    let mut seen: Vec<u64> = vec![c0];
    let mut bad: Option<String> = None;
    for (i, e) in evs.iter().enumerate() {
        let before = clock.as_u64();
        match *e {
            Ev::Send(wl) => {
                set_wall(wl, jitter.wrapping_mul(i as u64 + 7));
                let r = no_panic(|| clock.send());
                match r {
                    None => {
                        out.push("panic".into());
                        bad.get_or_insert(format!("step {i}: send panicked"));
                        break;
                    },
                    Some(Ok(t)) => {
                        out.push(format!("ok:{:x}", t.as_u64()));
                        w.stats.hit("send_ok");
                        if all_valid {
                            let tv = t.as_u64();
                            if clock.as_u64() != tv {
                                bad.get_or_insert(format!("step {i}: clock != issued stamp"));
                            }
                            if seen.iter().any(|u| HLCTimestamp::from_u64(*u) >= t) {
                                bad.get_or_insert(format!("step {i}: issued stamp not greater than everything before"));
                            }
                            if t.node() as u64 != c0 & 0xFF {
                                bad.get_or_insert(format!("step {i}: issued stamp has foreign node id"));
                            }
                            if tick_of(tv) > wl + DRIFT {
                                bad.get_or_insert(format!("step {i}: issued stamp more than drift ahead of wall"));
                            }
                            seen.push(tv);
                        }
                    },
                    Some(Err(e)) => {
                        out.push(err_name(&e).into());
                        w.stats.hit(&format!("send_{}", err_name(&e)));
                        if clock.as_u64() != before {
                            bad.get_or_insert(format!("step {i}: failed send changed the clock"));
                        }
                    },
                }
            },
            Ev::Recv(wl, m) => {
                set_wall(wl, jitter.wrapping_mul(i as u64 + 3));
                let msg = HLCTimestamp::from_u64(m);
                let r = no_panic(|| clock.recv(&msg));
                match r {
                    None => {
                        out.push("panic".into());
                        w.stats.hit("recv_panic");
                        if all_valid {
                            bad.get_or_insert(format!("step {i}: recv panicked on valid input"));
                        }
                        break;
                    },
                    Some(Ok(t)) => {
                        out.push(format!("ok:{:x}", t.as_u64()));
                        w.stats.hit("recv_ok");
                        if all_valid {
                            let cv = clock.as_u64();
                            if !(HLCTimestamp::from_u64(before) < clock) || !(msg < clock) {
                                bad.get_or_insert(format!("step {i}: clock not greater than old clock and remote stamp after recv"));
                            }
                            if cv & 0xFF != c0 & 0xFF {
                                bad.get_or_insert(format!("step {i}: recv changed the node id"));
                            }
                            seen.push(m);
                            seen.push(cv);
                        }
                    },
                    Some(Err(e)) => {
                        out.push(err_name(&e).into());
                        w.stats.hit(&format!("recv_{}", err_name(&e)));
                        if clock.as_u64() != before {
                            bad.get_or_insert(format!("step {i}: failed recv changed the clock"));
                        }
                    },
                }
            },
        }
    }
    let res = format!("{} | {:x}", out.join(" "), clock.as_u64());
    w.case(&case, &res);
    if let Some(b) = bad {
        w.fail("hlc-guarantee", &case, &b);
    }
}

fn parse_case(line: &str) -> Option<(u64, Vec<Ev>)> {
    let mut it = line.split_whitespace();
    if it.next()? != "run" {
        return None;
    }
    let c0 = u64::from_str_radix(it.next()?, 16).ok()?;
    let mut evs = Vec::new();
    for t in it {
        let p: Vec<&str> = t.split(':').collect();
        match p.as_slice() {
            ["s", w] => evs.push(Ev::Send(u64::from_str_radix(w, 16).ok()?)),
            ["r", w, m] => evs.push(Ev::Recv(
                u64::from_str_radix(w, 16).ok()?,
                u64::from_str_radix(m, 16).ok()?,
            )),
            _ => return None,
        }
    }
    Some((c0, evs))
}

fn main() {
    quiet_panics();
    let args = Args::parse();
    let mut rng = Rng::new(args.seed);
    let mut w = CaseWriter::new(&args.dir, "hlc");

    if let Some(path) = &args.replay {
        for line in std::fs::read_to_string(path).unwrap().lines() {
            if let Some((c0, evs)) = parse_case(line) {
                run_case(&mut w, c0, &evs, 1);
            }
        }
        verif::clear_wall_clock();
        w.finish(&[]);
        return;
    }

    // 1. bounded-exhaustive: all histories of length <= 2 (and a slice of length 3) over
    //    an alphabet built around one base instant.
    let base: u64 = 200_000_000; // ~ 9 days after the epoch, in ticks
    let walls = [base, base + 1, base - 1, base - 900_000, base + DRIFT, base + DRIFT + 1, base - DRIFT - 1];
    let me = 1u64;
    let mut alphabet: Vec<Ev> = Vec::new();
    for &wl in &walls {
        alphabet.push(Ev::Send(wl));
    }
    for &wl in &walls {
        for &dt in &[0i64, 1, -1, DRIFT as i64, DRIFT as i64 + 1] {
            for &cnt in &[0u64, 65534, 65535] {
                for &node in &[me, 2u64] {
                    let t = (wl as i64 + dt) as u64;
                    alphabet.push(Ev::Recv(wl, mk(t, cnt, node)));
                }
            }
        }
    }
    let c0s = [mk(base, 0, me), mk(base, 65534, me), mk(base, 65535, me), mk(base + 1, 7, me)];
    let mut exhaustive = 0u64;
    for &c0 in &c0s {
        run_case(&mut w, c0, &[], 0);
        for &a in &alphabet {
            run_case(&mut w, c0, &[a], 1);
            exhaustive += 1;
            for &b in &alphabet {
                run_case(&mut w, c0, &[a, b], 2);
                exhaustive += 1;
            }
        }
    }
    // length 3 and 4: sends and a reduced recv alphabet
    let small: Vec<Ev> = alphabet
        .iter()
        .cloned()
        .filter(|e| match e {
            Ev::Send(_) => true,
            Ev::Recv(wl, m) => (*wl == base || *wl == base + 1) && (m & 0xFF) == 2 && ((m >> 8) & 0xFFFF) != 65534,
        })
        .collect();
    let depth4 = args.thorough();
    for &c0 in &c0s {
        for &a in &small {
            for &b in &small {
                for &c in &small {
                    run_case(&mut w, c0, &[a, b, c], 3);
                    exhaustive += 1;
                    if depth4 {
                        for &d in &small {
                            run_case(&mut w, c0, &[a, b, c, d], 4);
                            exhaustive += 1;
                        }
                    }
                }
            }
        }
    }

    // 2. random histories of length up to 50 with non-monotone walls, boundary-biased
    let n_random = if args.thorough() { 60_000 } else { 6_000 };
    for _ in 0..n_random {
        let base = match rng.below(5) {
            0 => 1 + rng.below(1000),                  // right after the epoch
            1 => WALL_MAX - DRIFT - rng.below(5_000),  // near the 32-bit end
            2 => WALL_MAX - rng.below(200),
            _ => rng.below(WALL_MAX / 2),
        };
        let me = rng.below(256);
        let c0 = mk(base.min(WALL_MAX), *rng.pick(&[0u64, 1, 65533, 65534, 65535, 1000]), me);
        let len = 1 + rng.below(50) as usize;
        let mut wall = base;
        let mut evs = Vec::with_capacity(len);
        for _ in 0..len {
            wall = match rng.below(10) {
                0 => wall.saturating_sub(rng.below(1_000_000)),
                1 => wall.saturating_sub(1),
                2 | 3 | 4 => wall,
                5 => (wall + DRIFT).min(WALL_MAX),
                6 => (wall + DRIFT + 1).min(WALL_MAX),
                _ => (wall + rng.below(3)).min(WALL_MAX),
            };
            if rng.chance(3, 5) {
                evs.push(Ev::Send(wall));
            } else {
                let dt: i64 = match rng.below(8) {
                    0 => DRIFT as i64,
                    1 => DRIFT as i64 + 1,
                    2 => -(rng.below(2_000_000) as i64),
                    3 => 1,
                    _ => 0,
                };
                let t = ((wall as i64 + dt).max(0) as u64).min(WALL_MAX);
                let node = if rng.chance(1, 10) { me } else { rng.below(256) };
                let cnt = *rng.pick(&[0u64, 1, 65534, 65535, 65535, 12]);
                let mut m = mk(t, cnt, node);
                if rng.chance(1, 40) {
                    // a gibberish fraction (250..255) as from_u64 admits: model and code must still agree
                    m = (m & !(0xFFu64 << 24)) | ((250 + rng.below(6)) << 24);
                }
                evs.push(Ev::Recv(wall, m));
            }
        }
        run_case(&mut w, c0, &evs, rng.next());
    }
    verif::clear_wall_clock();
    w.finish(&[("exhaustive_histories", exhaustive.to_string())]);
}
