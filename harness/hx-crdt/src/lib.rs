//! Shared pieces of the datacake-crdt executors: a uniform interface over
//! `OrSWotSet<1>` / `OrSWotSet<2>`, the token interpreter used by every orswot case,
//! and small stamp helpers.

use datacake_crdt::{HLCTimestamp, OrSWotSet};

pub const W_TICKS: u64 = 3600 * 250;
/// A key no generator uses: `will_apply(PROBE_KEY, t)` is exactly "t is not before the cut-off".
pub const PROBE_KEY: u64 = 0xFFFF_FFFF_FFFF_FFFE;

pub fn mk(tick: u64, cnt: u64, node: u64) -> u64 {
    ((tick / 250) << 32) | ((tick % 250) << 24) | (cnt << 8) | node
}
pub fn tick_of(v: u64) -> u64 {
    (v >> 32) * 250 + ((v >> 24) & 0xFF)
}
pub fn node_of(v: u64) -> u64 {
    v & 0xFF
}
pub fn ts(v: u64) -> HLCTimestamp {
    HLCTimestamp::from_u64(v)
}

pub type Pairs = Vec<(u64, u64)>;

pub trait SetApi: Clone + Default {
    fn ins(&mut self, src: usize, k: u64, t: u64) -> bool;
    fn del(&mut self, src: usize, k: u64, t: u64) -> bool;
    fn will(&self, k: u64, t: u64) -> bool;
    fn get_(&self, k: u64) -> Option<u64>;
    fn purge_(&mut self) -> Pairs;
    fn diff_(&self, other: &Self) -> (Pairs, Pairs);
    fn merge_(&mut self, other: &Self);
    /// `from_bytes(as_bytes(self))`
    fn reencoded(&self) -> Option<Self>;
    /// (live entries, tombstones) as `OrSWotSet::default().diff(self)` lists them, sorted.
    fn contents(&self) -> (Pairs, Pairs) {
        Self::default().diff_(self)
    }
}

fn canon(v: Vec<(u64, HLCTimestamp)>) -> Pairs {
    let mut p: Pairs = v.into_iter().map(|(k, t)| (k, t.as_u64())).collect();
    p.sort();
    p
}

impl<const N: usize> SetApi for OrSWotSet<N> {
    // `insert` / `delete` are the public source-0 entry points: they must be the same operation as
    // `*_with_source(0, ..)`; odd keys go through them.
    fn ins(&mut self, src: usize, k: u64, t: u64) -> bool {
        if src == 0 && k % 2 == 1 {
            self.insert(k, ts(t))
        } else {
            self.insert_with_source(src, k, ts(t))
        }
    }
    fn del(&mut self, src: usize, k: u64, t: u64) -> bool {
        if src == 0 && k % 2 == 1 {
            self.delete(k, ts(t))
        } else {
            self.delete_with_source(src, k, ts(t))
        }
    }
    fn reencoded(&self) -> Option<Self> {
        let bytes = self.as_bytes().ok()?;
        let mut aligned = rkyv::AlignedVec::with_capacity(bytes.len());
        aligned.extend_from_slice(&bytes);
        Self::from_bytes(&aligned).ok()
    }
    fn will(&self, k: u64, t: u64) -> bool {
        self.will_apply(k, ts(t))
    }
    fn get_(&self, k: u64) -> Option<u64> {
        self.get(&k).map(|t| t.as_u64())
    }
    fn purge_(&mut self) -> Pairs {
        canon(self.purge_old_deletes())
    }
    fn diff_(&self, other: &Self) -> (Pairs, Pairs) {
        let (m, r) = self.diff(other);
        (canon(m), canon(r))
    }
    fn merge_(&mut self, other: &Self) {
        self.merge(other.clone())
    }
}

pub fn show_pairs(p: &Pairs) -> String {
    let v: Vec<String> = p.iter().map(|(k, t)| format!("{:x}={:x}", k, t)).collect();
    format!("[{}]", v.join(","))
}

/// Interprets the tokens of an orswot case on up to four sets (see the model driver
/// `run_orswot` in ocaml/core/modelrun.ml: both print the same text).
pub fn interpret<S: SetApi>(toks: &[&str]) -> String {
    let mut sets: Vec<S> = (0..8).map(|_| S::default()).collect();
    let mut cur = 0usize;
    let mut out: Vec<String> = Vec::new();
    let hx = |s: &str| u64::from_str_radix(s, 16).unwrap();
    for tok in toks {
        if let Some(i) = tok.strip_prefix('@') {
            cur = i.parse().unwrap();
            continue;
        }
        let p: Vec<&str> = tok.split(':').collect();
        match p.as_slice() {
            ["i", src, k, t] => {
                let b = sets[cur].ins(src.parse().unwrap(), hx(k), hx(t));
                out.push((b as u8).to_string());
            },
            ["d", src, k, t] => {
                let b = sets[cur].del(src.parse().unwrap(), hx(k), hx(t));
                out.push((b as u8).to_string());
            },
            ["w", k, t] => out.push((sets[cur].will(hx(k), hx(t)) as u8).to_string()),
            ["g", k] => out.push(match sets[cur].get_(hx(k)) {
                Some(t) => format!("some:{:x}", t),
                None => "none".into(),
            }),
            ["p"] => {
                let purged = sets[cur].purge_();
                out.push(format!("p{}", show_pairs(&purged)));
            },
            ["C", j] => {
                let other = sets[j.parse::<usize>().unwrap()].clone();
                sets[cur] = other;
            },
            ["M", j] => {
                let other = sets[j.parse::<usize>().unwrap()].clone();
                sets[cur].merge_(&other);
            },
            ["F", j] => {
                let (m, r) = sets[cur].diff_(&sets[j.parse::<usize>().unwrap()]);
                out.push(format!("F{}{}", show_pairs(&m), show_pairs(&r)));
            },
            ["S", probes] => {
                let (e, d) = sets[cur].contents();
                let b: String = probes
                    .split(',')
                    .filter(|s| !s.is_empty())
                    .map(|t| if sets[cur].will(PROBE_KEY, hx(t)) { '0' } else { '1' })
                    .collect();
                // a state that was serialised and decoded again is the same state
                let again = sets[cur].reencoded();
                let same = match &again {
                    Some(a) => a.contents() == (e.clone(), d.clone()) && probes.split(',').filter(|s| !s.is_empty()).all(|t| a.will(PROBE_KEY, hx(t)) == sets[cur].will(PROBE_KEY, hx(t))),
                    None => false,
                };
                out.push(format!("E{}D{}B[{}]{}", show_pairs(&e), show_pairs(&d), b, if same { "" } else { "!reencoded-state-differs" }));
            },
            ["S"] => {
                let (e, d) = sets[cur].contents();
                out.push(format!("E{}D{}B[]", show_pairs(&e), show_pairs(&d)));
            },
            _ => out.push("?tok".into()),
        }
    }
    out.join(" ")
}

pub fn interpret_n(nsrc: usize, toks: &[&str]) -> String {
    match nsrc {
        1 => interpret::<OrSWotSet<1>>(toks),
        2 => interpret::<OrSWotSet<2>>(toks),
        3 => interpret::<OrSWotSet<3>>(toks),
        _ => panic!("unsupported source count"),
    }
}
