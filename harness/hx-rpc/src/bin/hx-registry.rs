//! hx-registry: implementation executor for C13 (a message is served exactly
//! when its service is currently registered).
//!
//! A real `datacake_rpc::Server` (in-process transport, no OS sockets) receives
//! a history of `add_service` / `remove_service` calls; after the history (or
//! after each of its operations) an ordinary `RpcClient` sends one request to
//! every (service, message) pair of the universe and the replies are recorded:
//! which handler instance answered, or that the request was refused as an
//! unknown service.  The executor writes `<dir>/registry.cases` +
//! `<dir>/registry.impl` for the comparison with the extracted Coq model and
//! evaluates the property's own predicate on the implementation
//! (`<dir>/registry.fail`).
//!
//! Universe: four service names and three message types.
//!   name 0  `SvcA`      default name (type name)            registers M0 M1
//!   name 1  `SvcB<u8>`  default name, contains `<` `>`      registers M0 M2
//!   name 2  `SvcC`      custom name `custom.svc<v1>`        registers M0 M1
//!           `SvcC2`     the *same* custom name              registers M1 M2
//!   name 3  `SvcZ`      never added (only removed / probed)
//! M0 is shared by A, B and C; the M1 handler of the custom-named services has a
//! custom path.
//!
//! case   ::= kind 4 3 op*        kind = end (probe after the history) | each (after every op)
//! op     ::= +name,msg.msg,inst  | -name          (lower-case hex)
//! result ::= table (" | " table)*;  table = 12 entries "inst:msg" or "-" (refused)

use std::collections::hash_map::DefaultHasher;
use std::collections::{BTreeMap, BTreeSet};
use std::hash::{Hash, Hasher};
use std::marker::PhantomData;
use std::net::SocketAddr;

use datacake_rpc::{
    Channel,
    ErrorCode,
    Handler,
    Request,
    RpcClient,
    RpcService,
    Server,
    ServiceRegistry,
    Status,
};
use hxcommon::{no_panic, quiet_panics, Args, CaseWriter, Rng};
use rkyv::{Archive, Deserialize, Serialize};

const NS: usize = 4;
const NM: usize = 3;

// ------------------------------------------------------------------ messages
macro_rules! message {
    ($name:ident) => {
        #[repr(C)]
        #[derive(Serialize, Deserialize, Archive, Debug)]
        #[archive(check_bytes)]
        #[archive_attr(derive(Debug))]
        pub struct $name {
            tag: u64,
        }
    };
}
message!(M0);
message!(M1);
message!(M2);

// ------------------------------------------------------------------ services
/// The reply names the handler that ran: instance, Rust type, message handler.
fn identity(inst: u64, ty: u64, msg: u64) -> u64 {
    (inst << 16) | (ty << 8) | msg
}

pub struct SvcA {
    inst: u64,
}
pub struct SvcB<T> {
    inst: u64,
    _p: PhantomData<T>,
}
pub struct SvcC {
    inst: u64,
}
pub struct SvcC2 {
    inst: u64,
}
pub struct SvcZ {
    inst: u64,
}

const CUSTOM_NAME: &str = "custom.svc<v1>";
const CUSTOM_PATH: &str = "msg<one>";

impl RpcService for SvcA {
    fn register_handlers(registry: &mut ServiceRegistry<Self>) {
        registry.add_handler::<M0>();
        registry.add_handler::<M1>();
    }
}
impl<T: Send + Sync + 'static> RpcService for SvcB<T> {
    fn register_handlers(registry: &mut ServiceRegistry<Self>) {
        registry.add_handler::<M0>();
        registry.add_handler::<M2>();
    }
}
impl RpcService for SvcC {
    fn service_name() -> &'static str {
        CUSTOM_NAME
    }
    fn register_handlers(registry: &mut ServiceRegistry<Self>) {
        registry.add_handler::<M0>();
        registry.add_handler::<M1>();
    }
}
impl RpcService for SvcC2 {
    fn service_name() -> &'static str {
        CUSTOM_NAME
    }
    fn register_handlers(registry: &mut ServiceRegistry<Self>) {
        registry.add_handler::<M1>();
        registry.add_handler::<M2>();
    }
}
impl RpcService for SvcZ {
    fn register_handlers(registry: &mut ServiceRegistry<Self>) {
        registry.add_handler::<M0>();
        registry.add_handler::<M1>();
        registry.add_handler::<M2>();
    }
}

/// Every service type *implements* a handler for every message (so that a
/// typed client can address every pair); which ones are *registered* is decided
/// by `register_handlers` above.
macro_rules! handler {
    ([$($gen:tt)*] $svc:ty, $ty:expr, $msg:ident, $m:expr) => {
        #[datacake_rpc::async_trait]
        impl<$($gen)*> Handler<$msg> for $svc {
            type Reply = u64;
            async fn on_message(&self, msg: Request<$msg>) -> Result<u64, Status> {
                if msg.tag != $m {
                    return Err(Status::internal(format!(
                        "handler for message {} received message {}", $m, msg.tag
                    )));
                }
                Ok(identity(self.inst, $ty, $m))
            }
        }
    };
    ([$($gen:tt)*] $svc:ty, $ty:expr, $msg:ident, $m:expr, path = $path:expr) => {
        #[datacake_rpc::async_trait]
        impl<$($gen)*> Handler<$msg> for $svc {
            type Reply = u64;
            fn path() -> &'static str {
                $path
            }
            async fn on_message(&self, msg: Request<$msg>) -> Result<u64, Status> {
                if msg.tag != $m {
                    return Err(Status::internal(format!(
                        "handler for message {} received message {}", $m, msg.tag
                    )));
                }
                Ok(identity(self.inst, $ty, $m))
            }
        }
    };
}
handler!([] SvcA, 0, M0, 0);
handler!([] SvcA, 0, M1, 1);
handler!([] SvcA, 0, M2, 2);
handler!([T: Send + Sync + 'static] SvcB<T>, 1, M0, 0);
handler!([T: Send + Sync + 'static] SvcB<T>, 1, M1, 1);
handler!([T: Send + Sync + 'static] SvcB<T>, 1, M2, 2);
handler!([] SvcC, 2, M0, 0);
handler!([] SvcC, 2, M1, 1, path = CUSTOM_PATH);
handler!([] SvcC, 2, M2, 2);
handler!([] SvcC2, 3, M0, 0);
handler!([] SvcC2, 3, M1, 1, path = CUSTOM_PATH);
handler!([] SvcC2, 3, M2, 2);
handler!([] SvcZ, 4, M0, 0);
handler!([] SvcZ, 4, M1, 1);
handler!([] SvcZ, 4, M2, 2);

/// The service types that can be added: (Rust type tag, name, registered messages).
const ADDABLE: [(u64, u64, &[u64]); 4] =
    [(0, 0, &[0, 1]), (1, 1, &[0, 2]), (2, 2, &[0, 1]), (3, 2, &[1, 2])];

fn service_name_of(name: u64) -> &'static str {
    match name {
        0 => SvcA::service_name(),
        1 => SvcB::<u8>::service_name(),
        2 => SvcC::service_name(),
        3 => SvcZ::service_name(),
        _ => panic!("service name {name} is outside the universe of this executor"),
    }
}

fn path_of(name: u64, msg: u64) -> &'static str {
    match (name, msg) {
        (0, 0) => <SvcA as Handler<M0>>::path(),
        (0, 1) => <SvcA as Handler<M1>>::path(),
        (0, 2) => <SvcA as Handler<M2>>::path(),
        (1, 0) => <SvcB<u8> as Handler<M0>>::path(),
        (1, 1) => <SvcB<u8> as Handler<M1>>::path(),
        (1, 2) => <SvcB<u8> as Handler<M2>>::path(),
        (2, 0) => <SvcC as Handler<M0>>::path(),
        (2, 1) => <SvcC as Handler<M1>>::path(),
        (2, 2) => <SvcC as Handler<M2>>::path(),
        (3, 0) => <SvcZ as Handler<M0>>::path(),
        (3, 1) => <SvcZ as Handler<M1>>::path(),
        (3, 2) => <SvcZ as Handler<M2>>::path(),
        _ => panic!("pair outside the universe"),
    }
}

// ---------------------------------------------------------------- operations
#[derive(Clone, Debug, PartialEq)]
enum Op {
    Add { name: u64, msgs: Vec<u64>, inst: u64 },
    Remove { name: u64 },
}

impl Op {
    fn show(&self) -> String {
        match self {
            Op::Add { name, msgs, inst } => {
                let ms: Vec<String> = msgs.iter().map(|m| format!("{:x}", m)).collect();
                format!("+{:x},{},{:x}", name, ms.join("."), inst)
            },
            Op::Remove { name } => format!("-{:x}", name),
        }
    }
    fn parse(t: &str) -> Option<Op> {
        let hex = |s: &str| u64::from_str_radix(s, 16).ok();
        if let Some(rest) = t.strip_prefix('-') {
            return Some(Op::Remove { name: hex(rest)? });
        }
        let rest = t.strip_prefix('+')?;
        let parts: Vec<&str> = rest.split(',').collect();
        if parts.len() != 3 {
            return None;
        }
        let msgs = parts[1]
            .split('.')
            .filter(|s| !s.is_empty())
            .map(hex)
            .collect::<Option<Vec<u64>>>()?;
        Some(Op::Add {
            name: hex(parts[0])?,
            msgs,
            inst: hex(parts[2])?,
        })
    }
    /// The Rust type whose `add_service` this operation denotes.
    fn type_tag(&self) -> Option<u64> {
        match self {
            Op::Add { name, msgs, .. } => {
                let set: BTreeSet<u64> = msgs.iter().copied().collect();
                ADDABLE
                    .iter()
                    .find(|(_, n, ms)| n == name && ms.iter().copied().collect::<BTreeSet<u64>>() == set)
                    .map(|(ty, _, _)| *ty)
            },
            Op::Remove { .. } => None,
        }
    }
}

fn apply(server: &Server, op: &Op) {
    match op {
        Op::Add { inst, .. } => match op.type_tag() {
            Some(0) => server.add_service(SvcA { inst: *inst }),
            Some(1) => server.add_service(SvcB::<u8> {
                inst: *inst,
                _p: PhantomData,
            }),
            Some(2) => server.add_service(SvcC { inst: *inst }),
            Some(3) => server.add_service(SvcC2 { inst: *inst }),
            _ => panic!("no service type of this executor registers {:?}", op),
        },
        Op::Remove { name } => server.remove_service(service_name_of(*name)),
    }
}

// -------------------------------------------------------------------- probes
#[derive(Clone, Debug, PartialEq)]
enum Seen {
    Served { inst: u64, ty: u64, msg: u64 },
    Refused { unknown_service_text: bool },
    Other(String),
}

impl Seen {
    fn show(&self) -> String {
        match self {
            Seen::Served { inst, msg, .. } => format!("{:x}:{:x}", inst, msg),
            Seen::Refused { .. } => "-".into(),
            Seen::Other(code) => format!("err:{code}"),
        }
    }
}

fn classify(name: u64, msg: u64, r: Result<u64, Status>) -> Seen {
    match r {
        Ok(v) => Seen::Served {
            inst: v >> 16,
            ty: (v >> 8) & 0xff,
            msg: v & 0xff,
        },
        Err(status) => match status.code {
            ErrorCode::ServiceUnavailable => {
                // "refused as an unknown service": the reply names the URI it did not find
                let uri = format!(
                    "/{}/{}",
                    service_name_of(name).replace(['<', '>'], "-"),
                    path_of(name, msg).replace(['<', '>'], "-")
                );
                Seen::Refused {
                    unknown_service_text: status.message == format!("Unknown service {uri}"),
                }
            },
            other => Seen::Other(format!("{:?}", other)),
        },
    }
}

async fn probe(channel: &Channel, name: u64, msg: u64) -> Seen {
    macro_rules! call {
        ($svc:ty, $m:ident, $tag:expr) => {{
            let client = RpcClient::<$svc>::new(channel.clone());
            client.send(&$m { tag: $tag }).await.map(|view| {
                let v: u64 = view.deserialize_view().expect("u64 reply");
                v
            })
        }};
    }
    let r = match (name, msg) {
        (0, 0) => call!(SvcA, M0, 0),
        (0, 1) => call!(SvcA, M1, 1),
        (0, 2) => call!(SvcA, M2, 2),
        (1, 0) => call!(SvcB<u8>, M0, 0),
        (1, 1) => call!(SvcB<u8>, M1, 1),
        (1, 2) => call!(SvcB<u8>, M2, 2),
        (2, 0) => call!(SvcC, M0, 0),
        (2, 1) => call!(SvcC, M1, 1),
        (2, 2) => call!(SvcC, M2, 2),
        (3, 0) => call!(SvcZ, M0, 0),
        (3, 1) => call!(SvcZ, M1, 1),
        (3, 2) => call!(SvcZ, M2, 2),
        _ => panic!("pair outside the universe"),
    };
    classify(name, msg, r)
}

async fn probe_all(channel: &Channel) -> Vec<Seen> {
    let mut out = Vec::with_capacity(NS * NM);
    for s in 0..NS as u64 {
        for m in 0..NM as u64 {
            out.push(probe(channel, s, m).await);
        }
    }
    out
}

// ------------------------------------------------------- the property oracle
/// "Its service was added and not removed since": the registration table kept
/// the way the sentence reads — adding a service registers its messages under
/// its name with the instance that was added, removing a name unregisters all
/// of them.  (name -> message -> (instance, Rust type))
#[derive(Default)]
struct Registered(BTreeMap<u64, BTreeMap<u64, (u64, u64)>>);

impl Registered {
    fn apply(&mut self, op: &Op) {
        match op {
            Op::Add { name, msgs, inst } => {
                let ty = op.type_tag().unwrap_or(255);
                let e = self.0.entry(*name).or_default();
                for m in msgs {
                    e.insert(*m, (*inst, ty));
                }
            },
            Op::Remove { name } => {
                self.0.remove(name);
            },
        }
    }
    fn expected(&self, name: u64, msg: u64) -> Option<(u64, u64)> {
        self.0.get(&name).and_then(|ms| ms.get(&msg)).copied()
    }
}

fn check_table(w: &mut CaseWriter, case: &str, at: usize, reg: &Registered, table: &[Seen]) {
    for s in 0..NS as u64 {
        for m in 0..NM as u64 {
            let seen = &table[(s as usize) * NM + m as usize];
            let want = reg.expected(s, m);
            let ctx = |what: &str| format!("after {at} operation(s): request ({s},{m}) {what}; seen {seen:?}, registered {want:?}");
            match (want, seen) {
                (None, Seen::Refused { unknown_service_text }) => {
                    w.stats.hit("probe_refused");
                    if !unknown_service_text {
                        w.fail("refusal-does-not-name-unknown-service", case, &ctx("refused with another text"));
                    }
                },
                (None, Seen::Served { .. }) => {
                    w.fail("unregistered-service-still-served", case, &ctx("is served although its service is not registered"))
                },
                (Some(_), Seen::Refused { .. }) => {
                    w.fail("registered-service-refused", case, &ctx("is refused although its service is registered"))
                },
                (Some((inst, ty)), Seen::Served { inst: i, ty: t, msg: mm }) => {
                    w.stats.hit("probe_served");
                    if *i != inst || *t != ty || *mm != m {
                        w.fail("served-by-wrong-handler", case, &ctx("reached another handler"));
                    }
                },
                (_, Seen::Other(_)) => w.fail("unexpected-status", case, &ctx("got neither a reply nor ServiceUnavailable")),
            }
        }
    }
}

/// Corollary clauses, evaluated on consecutive tables around a `remove_service(a)`.
fn check_remove_step(w: &mut CaseWriter, case: &str, at: usize, a: u64, before: &[Seen], after: &[Seen]) {
    for s in 0..NS as u64 {
        for m in 0..NM as u64 {
            let i = (s as usize) * NM + m as usize;
            if s == a {
                if let Seen::Served { .. } = after[i] {
                    w.fail("remove-left-handler-behind", case,
                        &format!("operation {at} removed service {a}, request ({s},{m}) is still served: {:?}", after[i]));
                }
            } else if before[i] != after[i] {
                w.fail("remove-changed-another-service", case,
                    &format!("operation {at} removed service {a}, request ({s},{m}) changed from {:?} to {:?}", before[i], after[i]));
            }
        }
    }
}

// ------------------------------------------------------------------ running
struct Runner {
    rt: tokio::runtime::Runtime,
    channel: Channel,
    addr: SocketAddr,
}

impl Runner {
    fn new() -> Self {
        let rt = tokio::runtime::Builder::new_current_thread()
            .enable_all()
            .build()
            .unwrap();
        let addr: SocketAddr = "127.0.0.1:7013".parse().unwrap();
        let channel = {
            let _g = rt.enter();
            Channel::connect(addr)
        };
        Runner { rt, channel, addr }
    }

    /// Runs one history on a fresh server.  Returns the probe tables (one after
    /// the history for `each == false`, one per operation otherwise).
    fn run(&self, ops: &[Op], each: bool) -> Vec<Vec<Seen>> {
        let addr = self.addr;
        let channel = &self.channel;
        self.rt.block_on(async move {
            let server = Server::verif_local(addr);
            let mut tables = Vec::new();
            for op in ops {
                apply(&server, op);
                if each {
                    tables.push(probe_all(channel).await);
                }
            }
            if !each {
                tables.push(probe_all(channel).await);
            }
            datacake_rpc::verif::unregister_local_server(addr);
            server.shutdown();
            tables
        })
    }
}

fn do_case(w: &mut CaseWriter, runner: &Runner, ops: &[Op], each: bool) {
    let toks: Vec<String> = ops.iter().map(|o| o.show()).collect();
    let case = format!("{} {:x} {:x} {}", if each { "each" } else { "end" }, NS, NM, toks.join(" "));
    let case = case.trim_end().to_string();
    let tables = match no_panic(|| runner.run(ops, each)) {
        Some(t) => t,
        None => {
            w.case(&case, "PANIC");
            w.fail("panic", &case, "the server or client panicked");
            return;
        },
    };
    let shown: Vec<String> = tables
        .iter()
        .map(|t| t.iter().map(|e| e.show()).collect::<Vec<_>>().join(" "))
        .collect();
    w.case(&case, &shown.join(" | "));

    // input distribution
    let mut live: BTreeSet<u64> = BTreeSet::new();
    let mut ever: BTreeSet<u64> = BTreeSet::new();
    for op in ops {
        match op {
            Op::Add { name, .. } => {
                if live.contains(name) {
                    w.stats.hit("op_add_name_already_registered");
                } else if ever.contains(name) {
                    w.stats.hit("op_readd_after_removal");
                } else {
                    w.stats.hit("op_add_fresh");
                }
                live.insert(*name);
                ever.insert(*name);
            },
            Op::Remove { name } => {
                if live.remove(name) {
                    if live.is_empty() {
                        w.stats.hit("op_remove_registered_alone");
                    } else {
                        w.stats.hit("op_remove_registered_with_others_registered");
                    }
                } else {
                    w.stats.hit("op_remove_unregistered");
                }
            },
        }
    }

    // the property, evaluated on what the client saw
    let mut reg = Registered::default();
    if each {
        let mut prev: Option<&Vec<Seen>> = None;
        for (i, op) in ops.iter().enumerate() {
            reg.apply(op);
            check_table(w, &case, i + 1, &reg, &tables[i]);
            if let (Op::Remove { name }, Some(before)) = (op, prev) {
                check_remove_step(w, &case, i + 1, *name, before, &tables[i]);
            }
            prev = Some(&tables[i]);
        }
    } else {
        for op in ops {
            reg.apply(op);
        }
        check_table(w, &case, ops.len(), &reg, &tables[0]);
    }
}

fn alphabet() -> Vec<Op> {
    let mut v = Vec::new();
    for (_, name, msgs) in ADDABLE.iter() {
        v.push(Op::Add {
            name: *name,
            msgs: msgs.to_vec(),
            inst: 0,
        });
    }
    for name in 0..NS as u64 {
        v.push(Op::Remove { name });
    }
    v
}

fn with_instances(ops: &[Op]) -> Vec<Op> {
    ops.iter()
        .enumerate()
        .map(|(i, o)| match o {
            Op::Add { name, msgs, .. } => Op::Add {
                name: *name,
                msgs: msgs.clone(),
                inst: i as u64 + 1,
            },
            r => r.clone(),
        })
        .collect()
}

fn hash_uri(uri: &str) -> u64 {
    let mut hasher = DefaultHasher::new();
    uri.hash(&mut hasher);
    hasher.finish()
}

fn main() {
    quiet_panics();
    let args = Args::parse();
    let mut rng = Rng::new(args.seed);
    let mut w = CaseWriter::new(&args.dir, "registry");
    let runner = Runner::new();

    // The stated assumption of the theorems — the handler key is injective on
    // the pairs in use — checked for this universe the way the code computes it.
    let mut keys = BTreeMap::new();
    for s in 0..NS as u64 {
        for m in 0..NM as u64 {
            let uri = format!(
                "/{}/{}",
                service_name_of(s).replace(['<', '>'], "-"),
                path_of(s, m).replace(['<', '>'], "-")
            );
            if let Some(other) = keys.insert(hash_uri(&uri), (s, m)) {
                w.fail("universe-key-collision", "end 4 3", &format!("{:?} and {:?} share a handler key", other, (s, m)));
            }
        }
    }

    if let Some(path) = &args.replay {
        let text = std::fs::read_to_string(path).unwrap();
        for line in text.lines() {
            let t: Vec<&str> = line.split_whitespace().collect();
            if t.len() < 3 || (t[0] != "end" && t[0] != "each") || t[1] != "4" || t[2] != "3" {
                continue;
            }
            let ops: Option<Vec<Op>> = t[3..].iter().map(|x| Op::parse(x)).collect();
            if let Some(ops) = ops {
                if ops.iter().all(|o| matches!(o, Op::Remove { name } if *name < NS as u64) || o.type_tag().is_some()) {
                    do_case(&mut w, &runner, &ops, t[0] == "each");
                }
            }
        }
        w.finish(&[]);
        return;
    }

    // 1. every history over the alphabet (4 add_service, 4 remove_service) up to a length bound
    let alpha = alphabet();
    let max_len = args.get_u64("len", if args.thorough() { 7 } else { 6 }) as usize;
    let mut exhaustive = 0u64;
    for len in 0..=max_len {
        let total = (alpha.len() as u64).pow(len as u32);
        for code in 0..total {
            let mut c = code;
            let mut ops: Vec<Op> = Vec::with_capacity(len);
            for _ in 0..len {
                ops.push(alpha[(c % alpha.len() as u64) as usize].clone());
                c /= alpha.len() as u64;
            }
            do_case(&mut w, &runner, &with_instances(&ops), false);
            exhaustive += 1;
        }
    }

    // 2. every history up to a (smaller) length bound, probed after each operation
    //    (the corollary clauses are evaluated on consecutive tables)
    let each_len = args.get_u64("each_len", if args.thorough() { 5 } else { 4 }) as usize;
    let mut exhaustive_each = 0u64;
    for len in 1..=each_len {
        let total = (alpha.len() as u64).pow(len as u32);
        for code in 0..total {
            let mut c = code;
            let mut ops: Vec<Op> = Vec::with_capacity(len);
            for _ in 0..len {
                ops.push(alpha[(c % alpha.len() as u64) as usize].clone());
                c /= alpha.len() as u64;
            }
            do_case(&mut w, &runner, &with_instances(&ops), true);
            exhaustive_each += 1;
        }
    }

    // 3. random longer histories, probed after each operation
    let n_random = args.get_u64("random", if args.thorough() { 30_000 } else { 3_000 });
    for _ in 0..n_random {
        let len = match rng.below(4) {
            0 => 6 + rng.below(4),
            1 => 10 + rng.below(10),
            _ => 6 + rng.below(35),
        } as usize;
        let mut ops: Vec<Op> = Vec::with_capacity(len);
        // a bias per history: mostly adding, mostly removing, or balanced
        let add_weight = *rng.pick(&[2u64, 5, 8]);
        while ops.len() < len {
            let op = if rng.below(10) < add_weight {
                alpha[rng.below(4) as usize].clone()
            } else {
                alpha[4 + rng.below(4) as usize].clone()
            };
            // sometimes repeat the operation (double add / double remove)
            if rng.chance(1, 8) && ops.len() + 1 < len {
                ops.push(op.clone());
            }
            ops.push(op);
        }
        do_case(&mut w, &runner, &with_instances(&ops), true);
    }

    w.finish(&[
        ("exhaustive_histories_probed_at_end", exhaustive.to_string()),
        ("exhaustive_max_len", max_len.to_string()),
        ("exhaustive_histories_probed_after_each_op", exhaustive_each.to_string()),
        ("exhaustive_each_len", each_len.to_string()),
        ("random_histories", n_random.to_string()),
        ("alphabet", alpha.len().to_string()),
    ]);
}
