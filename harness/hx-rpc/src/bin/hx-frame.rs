//! hx-frame: implementation executor for C12 (RPC frames: checksum trailer, size
//! check, end-to-end delivery).
//!
//! Generates frames of seven message types (unit-like, fixed-size, string, nested, doubly nested string lists,
//! vectors, byte blob, and datacake's own `Status`), corrupts them (every single-bit
//! flip, every truncation, 1..8 byte extensions, checksum-valid short bodies, other
//! damage), runs `datacake_rpc::to_view_bytes` / `DataView::<T>::using` and whole
//! request/reply exchanges through the in-process transport (`Server::verif_local`,
//! `Channel::connect`, `RpcClient`) from /repo's working tree, writes
//! `<dir>/frame.cases` + `<dir>/frame.impl` for the comparison with the extracted Coq
//! model, and evaluates the property's own predicate on the implementation
//! (`<dir>/frame.fail`).
//!
//! Case lines (hex-encoded byte strings, `-` = empty):
//!   crc <type> <body>              trailer `to_view_bytes` appended to that body
//!   frame <type> <body>            the whole output of `to_view_bytes`
//!   using <type> <fixed> <bytes>   `DataView::<type>::using(bytes)`: ok | err | panic
//!   flip <type> <fixed> <i> <bytes>   the same after flipping bit i
//!   rpc <type> <fixed> <bytes>     raw bytes sent as a request: handled | invalid <code>
//!   echo <type> <fixed> <frame>    typed client -> echo handler -> client
//!   status <code> <message>        handler error -> client: err <code> <message>

use std::any::Any;
use std::marker::PhantomData;
use std::net::SocketAddr;
use std::sync::atomic::{AtomicU64, Ordering};
use std::sync::{Arc, Mutex};

use datacake_rpc::{
    to_view_bytes,
    Body,
    Channel,
    DataView,
    ErrorCode,
    Handler,
    Request,
    RequestContents,
    RpcClient,
    RpcService,
    Server,
    ServiceRegistry,
    Status,
};
use hxcommon::{hex_bytes, no_panic, quiet_panics, unhex_bytes, Args, CaseWriter, Rng};
use rkyv::{AlignedVec, Archive, Deserialize, Serialize};

// ------------------------------------------------------------------ message types

#[derive(Archive, Serialize, Deserialize, Clone, PartialEq, Debug)]
#[archive_attr(derive(Debug))]
pub struct Empty;

#[derive(Archive, Serialize, Deserialize, Clone, PartialEq, Debug)]
#[archive_attr(derive(Debug))]
pub struct Fixed {
    a: u32,
    b: u64,
    c: i16,
    flag: bool,
    buf: [u8; 12],
}

#[derive(Archive, Serialize, Deserialize, Clone, PartialEq, Debug)]
#[archive_attr(derive(Debug))]
pub struct Text {
    s: String,
}

#[derive(Archive, Serialize, Deserialize, Clone, PartialEq, Debug)]
#[archive_attr(derive(Debug))]
pub struct Nested {
    id: u64,
    rows: Vec<Vec<u32>>,
    names: Vec<String>,
    opt: Option<u16>,
}

/// Two list levels that both need serializer scratch space at the same time: the outer list's
/// resolvers stay allocated while every inner list allocates its own (8 bytes per string).
#[derive(Archive, Serialize, Deserialize, Clone, PartialEq, Debug)]
#[archive_attr(derive(Debug))]
pub struct Deep {
    tag: u32,
    groups: Vec<Vec<String>>,
}

#[derive(Archive, Serialize, Deserialize, Clone, PartialEq, Debug)]
#[archive_attr(derive(Debug))]
pub struct Blob {
    data: Vec<u8>,
}

/// A request whose handler fails with the given status.
#[derive(Archive, Serialize, Deserialize, Clone, PartialEq, Debug)]
pub struct FailReq {
    code: u8,
    message: String,
}

fn code_of(n: u8) -> ErrorCode {
    match n {
        0 => ErrorCode::ServiceUnavailable,
        1 => ErrorCode::InternalError,
        2 => ErrorCode::InvalidPayload,
        3 => ErrorCode::ConnectionError,
        _ => ErrorCode::Timeout,
    }
}

fn code_num(c: &ErrorCode) -> u8 {
    match c {
        ErrorCode::ServiceUnavailable => 0,
        ErrorCode::InternalError => 1,
        ErrorCode::InvalidPayload => 2,
        ErrorCode::ConnectionError => 3,
        ErrorCode::Timeout => 4,
    }
}

// ------------------------------------------------------------------ generators

fn rand_bytes(rng: &mut Rng, n: usize) -> Vec<u8> {
    let mode = rng.below(8);
    let mut v = Vec::with_capacity(n);
    while v.len() < n {
        let x = rng.next();
        for k in 0..8 {
            if v.len() < n {
                v.push(match mode {
                    0 => 0,
                    1 => 0xFF,
                    _ => (x >> (8 * k)) as u8,
                });
            }
        }
    }
    v
}

fn rand_string(rng: &mut Rng, n: usize) -> String {
    let mut s = String::new();
    while s.len() < n {
        match rng.below(10) {
            0 => s.push('é'),
            1 => s.push('\u{1F980}'),
            2 => s.push('\0'),
            _ => s.push((b' ' + rng.below(95) as u8) as char),
        }
    }
    s
}

fn gen_empty(_rng: &mut Rng, _size: usize) -> Empty {
    Empty
}

fn gen_fixed(rng: &mut Rng, _size: usize) -> Fixed {
    let edge = rng.below(4);
    let mut buf = [0u8; 12];
    for b in buf.iter_mut() {
        *b = if edge == 0 { 0 } else { rng.next() as u8 };
    }
    Fixed {
        a: if edge == 0 { 0 } else { rng.next() as u32 },
        b: match edge {
            0 => 0,
            1 => u64::MAX,
            _ => rng.next(),
        },
        c: rng.next() as i16,
        flag: rng.chance(1, 2),
        buf,
    }
}

fn gen_text(rng: &mut Rng, size: usize) -> Text {
    // rkyv stores strings of up to 8 bytes inline: cover both representations
    let n = match rng.below(4) {
        0 => rng.below(9) as usize,
        _ => rng.below(size as u64 + 1) as usize,
    };
    Text {
        s: rand_string(rng, n),
    }
}

fn gen_nested(rng: &mut Rng, size: usize) -> Nested {
    let mut budget = size as i64;
    let mut rows = Vec::new();
    let mut names = Vec::new();
    while budget > 0 && !rng.chance(1, 4 + size as u64 / 25) {
        if rng.chance(1, 2) {
            let n = rng.below((budget as u64 / 4).min(40) + 1) as usize;
            rows.push((0..n).map(|_| rng.next() as u32).collect());
            budget -= 8 + 4 * n as i64;
        } else {
            let n = rng.below((budget as u64).min(60) + 1) as usize;
            names.push(rand_string(rng, n));
            budget -= 8 + n as i64;
        }
    }
    Nested {
        id: rng.next(),
        rows,
        names,
        opt: if rng.chance(1, 2) { Some(rng.next() as u16) } else { None },
    }
}

fn gen_deep(rng: &mut Rng, size: usize) -> Deep {
    let mut budget = size as i64;
    let mut groups: Vec<Vec<String>> = Vec::new();
    while budget > 0 && !rng.chance(1, 6 + size as u64 / 25) {
        // an inner list of short strings; from 200 bytes on every third one is sized around what
        // is left of the serializer's 1 KiB first-tier scratch (128 resolvers of 8 bytes) once
        // the outer list has taken its share, the others anywhere up to 200 strings
        let n = if size >= 200 && rng.chance(1, 3) {
            let back = rng.below((groups.len() as u64 + 2).min(24)) as usize;
            if rng.chance(1, 2) { 128 - back } else { 128 + back }
        } else {
            rng.below((budget as u64 / 9).min(200) + 1) as usize
        };
        groups.push(
            (0..n)
                .map(|_| {
                    let l = rng.below(4) as usize;
                    rand_string(rng, l)
                })
                .collect(),
        );
        budget -= 8 + 8 * n as i64;
    }
    Deep {
        tag: rng.next() as u32,
        groups,
    }
}

fn gen_blob(rng: &mut Rng, size: usize) -> Blob {
    Blob {
        data: rand_bytes(rng, size),
    }
}

fn gen_status(rng: &mut Rng, size: usize) -> Status {
    let n = rng.below(size as u64 + 1) as usize;
    Status {
        code: code_of(rng.below(5) as u8),
        message: rand_string(rng, n),
    }
}

// ------------------------------------------------------------------ per-type operations

fn aligned(bytes: &[u8]) -> AlignedVec {
    let mut v = AlignedVec::with_capacity(bytes.len().max(1));
    v.extend_from_slice(bytes);
    v
}

/// The outcome of `DataView::<T>::using(bytes)` as the executors print it.
#[derive(Clone, Copy, PartialEq, Eq, Debug)]
enum Verdict {
    Ok,
    Err,
    Panic,
}

impl Verdict {
    fn show(self) -> &'static str {
        match self {
            Verdict::Ok => "ok",
            Verdict::Err => "err",
            Verdict::Panic => "panic",
        }
    }
}

/// End-to-end context: the in-process server, what its handler saw, the channel.
struct Ctx {
    rt: tokio::runtime::Runtime,
    shared: Arc<Shared>,
    channel: Channel,
    _server: Server,
}

#[derive(Default)]
struct Shared {
    calls: AtomicU64,
    seen: Mutex<Option<Box<dyn Any + Send>>>,
}

/// Type-specific operations, monomorphised by `ops!`.
struct Ops {
    name: &'static str,
    fixed: usize,
    align: usize,
    /// `DataView::<T>::using(bytes)`, the view is dropped unread.
    using: fn(&[u8]) -> Verdict,
    /// generates a value of about the given size; returns its frame and whether
    /// the view of that frame deserialises to a value equal to the generated one
    /// and re-serialises to the same frame.
    gen: fn(&mut Rng, usize) -> (Vec<u8>, bool),
    /// value held by a valid frame, re-serialised with `to_view_bytes`.
    reframe: fn(&[u8]) -> Option<Vec<u8>>,
    /// typed exchange: (handler calls, handler saw the sent value, reply equals it, error code)
    echo: Option<fn(&Ctx, &[u8]) -> EchoOut>,
    /// raw exchange: (handler calls, reply equals what the handler saw, error code)
    raw: Option<fn(&Ctx, &[u8]) -> EchoOut>,
}

#[derive(Debug, Default)]
struct EchoOut {
    calls: u64,
    seen_same: bool,
    reply_same: bool,
    err_code: Option<u8>,
    note: String,
}

macro_rules! base_ops {
    ($t:ty, $name:expr, $gen:ident, $echo:expr, $raw:expr) => {
        Ops {
            name: $name,
            fixed: std::mem::size_of::<<$t as Archive>::Archived>(),
            align: std::mem::align_of::<<$t as Archive>::Archived>(),
            using: |bytes: &[u8]| {
                let buf = aligned(bytes);
                match no_panic(move || DataView::<$t>::using(buf).map(|_| ())) {
                    None => Verdict::Panic,
                    Some(Ok(())) => Verdict::Ok,
                    Some(Err(_)) => Verdict::Err,
                }
            },
            gen: |rng: &mut Rng, size: usize| {
                let v: $t = $gen(rng, size);
                let frame = to_view_bytes(&v).expect("serialize").to_vec();
                let same = no_panic(|| {
                    match DataView::<$t>::using(aligned(&frame)) {
                        Ok(view) => match view.deserialize_view() {
                            Ok(back) => {
                                let back: $t = back;
                                // a copy of the view (what a handler moves into a task) shows the same value
                                // (the copy is only read through once its root is known to sit at the same
                                // offset of its own buffer: a misplaced root of a type with pointers reads
                                // outside the buffer, which no_panic cannot catch)
                                let copy = view.clone();
                                let off = |dv: &DataView<$t>| {
                                    (&**dv as *const <$t as Archive>::Archived as *const u8 as usize)
                                        .wrapping_sub(dv.as_bytes().as_ptr() as usize)
                                };
                                let copy_same = copy.as_bytes() == view.as_bytes()
                                    && off(&copy) == off(&view)
                                    && copy.deserialize_view().map(|c: $t| c == v).unwrap_or(false);
                                back == v
                                    && copy_same
                                    && to_view_bytes(&back).map(|b| b.to_vec() == frame).unwrap_or(false)
                            },
                            Err(_) => false,
                        },
                        Err(_) => false,
                    }
                })
                .unwrap_or(false);
                (frame, same)
            },
            reframe: |frame: &[u8]| {
                no_panic(|| {
                    let view = DataView::<$t>::using(aligned(frame)).ok()?;
                    let v: $t = view.deserialize_view().ok()?;
                    Some(to_view_bytes(&v).ok()?.to_vec())
                })
                .flatten()
            },
            echo: $echo,
            raw: $raw,
        }
    };
}

macro_rules! msg_ops {
    ($t:ty, $name:expr, $gen:ident) => {
        base_ops!(
            $t,
            $name,
            $gen,
            Some(|ctx: &Ctx, frame: &[u8]| {
                let mut out = EchoOut::default();
                let v: $t = match DataView::<$t>::using(aligned(frame))
                    .ok()
                    .and_then(|view| view.deserialize_view().ok())
                {
                    Some(v) => v,
                    None => {
                        out.note = "not-a-valid-frame".into();
                        return out;
                    },
                };
                let before = ctx.shared.calls.load(Ordering::SeqCst);
                *ctx.shared.seen.lock().unwrap() = None;
                let client = RpcClient::<EchoSvc>::new(ctx.channel.clone());
                // the public paths of one exchange: borrowed or owned message, the client or a
                // clone of it (rotates with the frame, so a replay takes the same path)
                let res = ctx.rt.block_on(async {
                    match frame.len() % 3 {
                        0 => client.send(&v).await,
                        1 => client.clone().send(&v).await,
                        _ => client.send_owned(v.clone()).await,
                    }
                });
                out.calls = ctx.shared.calls.load(Ordering::SeqCst) - before;
                let seen = ctx.shared.seen.lock().unwrap().take();
                out.seen_same = seen
                    .and_then(|b| b.downcast::<$t>().ok())
                    .map(|b| *b == v)
                    .unwrap_or(false);
                match res {
                    Ok(view) => {
                        out.reply_same = view
                            .deserialize_view()
                            .map(|r: $t| r == v)
                            .unwrap_or(false)
                            && view.as_bytes() == frame;
                    },
                    Err(status) => {
                        out.err_code = Some(code_num(&status.code));
                        out.note = status.message;
                    },
                }
                out
            }),
            Some(|ctx: &Ctx, bytes: &[u8]| {
                let mut out = EchoOut::default();
                let before = ctx.shared.calls.load(Ordering::SeqCst);
                *ctx.shared.seen.lock().unwrap() = None;
                let client = RpcClient::<Raw<$t>>::new(ctx.channel.clone());
                let res = ctx.rt.block_on(async {
                    match client.send_owned(Body::from(bytes.to_vec())).await {
                        Ok(body) => Ok(<$t as RequestContents>::from_body(body).await),
                        Err(status) => Err(status),
                    }
                });
                out.calls = ctx.shared.calls.load(Ordering::SeqCst) - before;
                let seen: Option<$t> = ctx
                    .shared
                    .seen
                    .lock()
                    .unwrap()
                    .take()
                    .and_then(|b| b.downcast::<$t>().ok())
                    .map(|b| *b);
                out.seen_same = seen.is_some();
                match res {
                    Ok(Ok(view)) => {
                        out.reply_same = match (view.deserialize_view(), &seen) {
                            (Ok(r), Some(s)) => {
                                let r: $t = r;
                                &r == s
                            },
                            _ => false,
                        };
                    },
                    Ok(Err(status)) => {
                        out.note = format!("reply-not-a-frame:{}", status.message);
                    },
                    Err(status) => {
                        out.err_code = Some(code_num(&status.code));
                        out.note = status.message;
                    },
                }
                out
            })
        )
    };
}

fn all_ops() -> Vec<Ops> {
    vec![
        msg_ops!(Empty, "empty", gen_empty),
        msg_ops!(Fixed, "fixed", gen_fixed),
        msg_ops!(Text, "text", gen_text),
        msg_ops!(Nested, "nested", gen_nested),
        msg_ops!(Blob, "blob", gen_blob),
        msg_ops!(Deep, "deep", gen_deep),
        base_ops!(Status, "status", gen_status, None, None),
    ]
}

// ------------------------------------------------------------------ services

pub struct EchoSvc(Arc<Shared>);

impl RpcService for EchoSvc {
    fn service_name() -> &'static str {
        "hx-frame-echo"
    }

    fn register_handlers(registry: &mut ServiceRegistry<Self>) {
        registry.add_handler::<Empty>();
        registry.add_handler::<Fixed>();
        registry.add_handler::<Text>();
        registry.add_handler::<Nested>();
        registry.add_handler::<Blob>();
        registry.add_handler::<Deep>();
        registry.add_handler::<FailReq>();
    }
}

macro_rules! echo_handler {
    ($t:ty) => {
        #[datacake_rpc::async_trait]
        impl Handler<$t> for EchoSvc {
            type Reply = $t;

            async fn on_message(&self, msg: Request<$t>) -> Result<$t, Status> {
                self.0.calls.fetch_add(1, Ordering::SeqCst);
                let v: $t = msg
                    .deserialize_view()
                    .map_err(|_| Status::internal("handler could not deserialize"))?;
                *self.0.seen.lock().unwrap() = Some(Box::new(v.clone()));
                Ok(v)
            }
        }
    };
}

echo_handler!(Empty);
echo_handler!(Fixed);
echo_handler!(Text);
echo_handler!(Nested);
echo_handler!(Blob);
echo_handler!(Deep);

#[datacake_rpc::async_trait]
impl Handler<FailReq> for EchoSvc {
    type Reply = Empty;

    async fn on_message(&self, msg: Request<FailReq>) -> Result<Empty, Status> {
        self.0.calls.fetch_add(1, Ordering::SeqCst);
        let v: FailReq = msg
            .deserialize_view()
            .map_err(|_| Status::internal("handler could not deserialize"))?;
        Err(Status {
            code: code_of(v.code),
            message: v.message,
        })
    }
}

/// Client-side stand-in used to send arbitrary bytes to the handler of message
/// type `T` of `EchoSvc`: same service name, same message path, body sent as is.
pub struct Raw<T>(PhantomData<T>);

impl<T: 'static> RpcService for Raw<T> {
    fn service_name() -> &'static str {
        EchoSvc::service_name()
    }

    fn register_handlers(_registry: &mut ServiceRegistry<Self>) {}
}

#[datacake_rpc::async_trait]
impl<T: Send + Sync + 'static> Handler<Body> for Raw<T> {
    type Reply = Body;

    fn path() -> &'static str {
        std::any::type_name::<T>()
    }

    async fn on_message(&self, _msg: Request<Body>) -> Result<Body, Status> {
        Err(Status::internal("client-side stand-in"))
    }
}

fn make_ctx() -> Ctx {
    let rt = tokio::runtime::Builder::new_current_thread()
        .enable_all()
        .build()
        .unwrap();
    let addr: SocketAddr = "127.0.0.1:47012".parse().unwrap();
    let shared = Arc::new(Shared::default());
    let server = rt.block_on(async { Server::verif_local(addr) });
    server.add_service(EchoSvc(shared.clone()));
    let channel = rt.block_on(async { Channel::connect(addr) });
    Ctx {
        rt,
        shared,
        channel,
        _server: server,
    }
}

// ------------------------------------------------------------------ cases

fn hx(b: &[u8]) -> String {
    if b.is_empty() {
        "-".into()
    } else {
        hex_bytes(b)
    }
}

fn unhx(s: &str) -> Vec<u8> {
    if s == "-" {
        Vec::new()
    } else {
        unhex_bytes(s)
    }
}

/// The property's own notion of an acceptable buffer, computed without the
/// implementation and without the model.
fn acceptable(fixed: usize, bytes: &[u8]) -> Result<(), &'static str> {
    if bytes.len() < fixed + 4 {
        return Err("accepts-short-frame");
    }
    let (body, trailer) = bytes.split_at(bytes.len() - 4);
    if crc32fast::hash(body).to_le_bytes() != trailer {
        return Err("accepts-checksum-mismatch");
    }
    Ok(())
}

#[derive(Clone, Copy, PartialEq)]
enum Damage {
    None,
    Flip,
    Other,
}

fn judge_using(w: &mut CaseWriter, ops: &Ops, case: &str, bytes: &[u8], v: Verdict, damage: Damage) {
    let acc = acceptable(ops.fixed, bytes);
    match v {
        Verdict::Panic => {
            w.stats.hit("using_panic");
            w.fail("using-panics", case, "DataView::using panicked");
        },
        Verdict::Ok => {
            w.stats.hit("using_ok");
            if damage == Damage::Flip {
                w.fail("accepts-single-bit-corruption", case, "");
            } else if let Err(class) = acc {
                w.fail(class, case, &format!("len={} fixed={}", bytes.len(), ops.fixed));
            }
        },
        Verdict::Err => {
            w.stats.hit("using_err");
            if acc.is_ok() && damage != Damage::Flip {
                w.fail("refuses-valid-frame", case, "");
            }
        },
    }
    if bytes.len() < ops.fixed + 4 {
        w.stats.hit("input_shorter_than_fixed_plus_trailer");
    }
}

/// A checksum-valid body of sufficient length is cast unchecked, by design.  When its
/// length puts the root object at a misaligned offset, a build with debug assertions
/// aborts the process inside rkyv ("misaligned pointer dereference", a non-unwinding
/// panic).  That input class is outside C12's statement (the checksum matches and the
/// frame is not short), so the debug-assertions run leaves it out; the release run
/// keeps it (the model and the code both accept).
fn aborts_debug_build(ops: &Ops, bytes: &[u8]) -> bool {
    cfg!(debug_assertions)
        && acceptable(ops.fixed, bytes).is_ok()
        && (bytes.len() - 4 - ops.fixed) % ops.align != 0
}

fn do_using(w: &mut CaseWriter, ops: &Ops, bytes: &[u8], damage: Damage) {
    if aborts_debug_build(ops, bytes) {
        w.stats.hit("skipped_misaligned_root_in_debug_build");
        return;
    }
    let case = format!("using {} {:x} {}", ops.name, ops.fixed, hx(bytes));
    let v = (ops.using)(bytes);
    w.case(&case, v.show());
    judge_using(w, ops, &case, bytes, v, damage);
}

fn flipped(bytes: &[u8], i: usize) -> Vec<u8> {
    let mut b = bytes.to_vec();
    b[i / 8] ^= 1 << (i % 8);
    b
}

fn do_flip(w: &mut CaseWriter, ops: &Ops, frame: &[u8], i: usize) {
    let case = format!("flip {} {:x} {:x} {}", ops.name, ops.fixed, i, hx(frame));
    let b = flipped(frame, i);
    let v = (ops.using)(&b);
    w.case(&case, v.show());
    w.stats.hit(if i / 8 + 4 >= frame.len() { "flip_in_trailer" } else { "flip_in_body" });
    judge_using(w, ops, &case, &b, v, Damage::Flip);
}

/// `to_view_bytes` of the value held by body ++ crc32(body).
fn do_frame(w: &mut CaseWriter, ops: &Ops, kind: &str, frame: &[u8], same: bool) {
    let body = &frame[..frame.len() - 4];
    let case = format!("{} {} {}", kind, ops.name, hx(body));
    if kind == "crc" {
        let t = u32::from_le_bytes(frame[frame.len() - 4..].try_into().unwrap());
        w.case(&case, &format!("{:x}", t));
    } else {
        w.case(&case, &hx(frame));
    }
    w.stats.hit("frames_built");
    if !same {
        w.fail("view-differs-from-sent", &case, "using+deserialize_view of to_view_bytes(v) is not v");
    }
    if crc32fast::hash(body).to_le_bytes() != frame[frame.len() - 4..] {
        w.fail("trailer-is-not-crc32-of-body", &case, "");
    }
}

thread_local! {
    /// 0 = bodies pass through the in-process transport unchanged; n = in pieces of n bytes
    static CHUNK: std::cell::Cell<usize> = std::cell::Cell::new(0);
}

/// `echo` / `echo@<n>`: the case kind names the body chunking it ran under.
fn kind(k: &str) -> String {
    match CHUNK.with(|c| c.get()) {
        0 => k.to_string(),
        n => format!("{}@{:x}", k, n),
    }
}

fn set_chunk(n: usize) {
    CHUNK.with(|c| c.set(n));
    datacake_rpc::verif::set_body_chunk_size(n);
}

fn do_echo(w: &mut CaseWriter, ctx: &Ctx, ops: &Ops, frame: &[u8]) {
    let Some(echo) = ops.echo else { return };
    let case = format!("{} {} {:x} {}", kind("echo"), ops.name, ops.fixed, hx(frame));
    match no_panic(|| echo(ctx, frame)) {
        None => {
            w.case(&case, "panic");
            w.fail("exchange-panics", &case, "");
        },
        Some(out) => {
            let res = if out.calls == 1 && out.err_code.is_none() {
                format!(
                    "handled {} {}",
                    if out.seen_same { "same" } else { "diff" },
                    if out.reply_same { "same" } else { "diff" }
                )
            } else if out.calls == 0 {
                match out.err_code {
                    Some(c) => format!("invalid {:x}", c),
                    None => format!("?{}", out.note),
                }
            } else {
                format!("?calls={} err={:?}", out.calls, out.err_code)
            };
            w.case(&case, &res);
            w.stats.hit("echo_exchanges");
            if out.calls != 1 {
                w.fail("valid-request-not-handled-exactly-once", &case, &format!("{:?}", out));
            } else if !out.seen_same {
                w.fail("handler-saw-a-different-value", &case, "");
            } else if !out.reply_same {
                w.fail("client-saw-a-different-reply", &case, &format!("{:?}", out.err_code));
            }
        },
    }
}

fn do_rpc(w: &mut CaseWriter, ctx: &Ctx, ops: &Ops, bytes: &[u8]) {
    let Some(raw) = ops.raw else { return };
    let case = format!("{} {} {:x} {}", kind("rpc"), ops.name, ops.fixed, hx(bytes));
    let acc = acceptable(ops.fixed, bytes);
    // The server casts what `DataView::using` accepts and the handler then reads
    // through that cast.  If `using` accepts bytes that are shorter than the
    // archived type, or whose checksum does not match, the handler's reads are
    // outside the buffer or through damaged pointers (undefined behaviour, observed
    // as a segmentation fault), so such a request is reported and not sent.
    if acc.is_err() && (ops.using)(bytes) == Verdict::Ok {
        w.case(&case, "handled-out-of-bounds");
        w.stats.hit("rpc_not_sent_unsafe");
        w.fail(
            "handler-ran-on-refusable-frame",
            &case,
            &format!(
                "DataView::using accepts these {} bytes (archived type: {} bytes, oracle: {:?}); the handler would read damaged data or outside the request buffer (not sent)",
                bytes.len(),
                ops.fixed,
                acc
            ),
        );
        return;
    }
    match no_panic(|| raw(ctx, bytes)) {
        None => {
            w.case(&case, "panic");
            w.stats.hit("rpc_panic");
            w.fail("exchange-panics", &case, "server or client panicked on these request bytes");
        },
        Some(out) => {
            let res = if out.calls == 1 && out.err_code.is_none() {
                "handled".to_string()
            } else if out.calls == 0 {
                match out.err_code {
                    Some(c) => format!("invalid {:x}", c),
                    None => format!("?{}", out.note),
                }
            } else {
                format!("?calls={} err={:?} {}", out.calls, out.err_code, out.note)
            };
            w.case(&case, &res);
            w.stats.hit(if out.calls > 0 { "rpc_handled" } else { "rpc_refused" });
            if out.calls > 0 {
                if let Err(class) = acc {
                    w.fail(
                        "handler-ran-on-refusable-frame",
                        &case,
                        &format!("{} len={} fixed={}", class, bytes.len(), ops.fixed),
                    );
                } else if !out.reply_same {
                    w.fail("client-saw-a-different-reply", &case, &out.note);
                }
            } else if acc.is_ok() {
                w.fail("valid-request-not-handled-exactly-once", &case, &format!("{:?}", out));
            } else if out.err_code != Some(2) {
                w.fail("refused-frame-not-reported-as-invalid-payload", &case, &format!("{:?}", out));
            }
        },
    }
}

fn do_status(w: &mut CaseWriter, ctx: &Ctx, code: u8, message: &str) {
    let case = format!("{} {:x} {}", kind("status"), code, hx(message.as_bytes()));
    let req = FailReq {
        code,
        message: message.to_string(),
    };
    let before = ctx.shared.calls.load(Ordering::SeqCst);
    let r = no_panic(|| {
        let client = RpcClient::<EchoSvc>::new(ctx.channel.clone());
        ctx.rt.block_on(async { client.send(&req).await.map(|_| ()) })
    });
    let calls = ctx.shared.calls.load(Ordering::SeqCst) - before;
    match r {
        None => {
            w.case(&case, "panic");
            w.fail("exchange-panics", &case, "");
        },
        Some(Ok(())) => {
            w.case(&case, "reply");
            w.fail("handler-error-lost", &case, "client saw a reply");
        },
        Some(Err(st)) => {
            w.case(&case, &format!("err {:x} {}", code_num(&st.code), hx(st.message.as_bytes())));
            w.stats.hit("status_exchanges");
            if calls != 1 || code_num(&st.code) != code || st.message != message {
                w.fail(
                    "handler-error-changed",
                    &case,
                    &format!("calls={} code={} message={:?}", calls, code_num(&st.code), st.message),
                );
            }
        },
    }
}

/// All mutations of one frame; `with_model` = every flip becomes a case line (the
/// model is run on each), otherwise the flips are judged by the oracle only and a
/// sample becomes case lines.
fn sweep_frame(w: &mut CaseWriter, rng: &mut Rng, ops: &Ops, frame: &[u8], with_model: bool) {
    let nbits = frame.len() * 8;
    do_using(w, ops, frame, Damage::None);
    // every single-bit flip
    if with_model {
        for i in 0..nbits {
            do_flip(w, ops, frame, i);
        }
        w.stats.hit("frames_swept_with_model");
    } else {
        let mut sample: Vec<usize> = (nbits.saturating_sub(40)..nbits).collect();
        sample.extend(0..8.min(nbits));
        for _ in 0..64 {
            sample.push(rng.below(nbits as u64) as usize);
        }
        for i in 0..nbits {
            let b = flipped(frame, i);
            let v = (ops.using)(&b);
            w.stats.hit("oracle_only_flips");
            if v != Verdict::Err {
                let case = format!("flip {} {:x} {:x} {}", ops.name, ops.fixed, i, hx(frame));
                judge_using(w, ops, &case, &b, v, Damage::Flip);
            }
        }
        for i in sample {
            do_flip(w, ops, frame, i);
        }
        w.stats.hit("frames_swept_oracle_only");
    }
    // every truncation (for the frames swept without the model: every truncation is
    // judged by the oracle, those near both ends and a sample are also case lines)
    for n in 0..frame.len() {
        let as_case = with_model
            || n < ops.fixed + 24
            || n + 16 >= frame.len()
            || rng.chance(48, frame.len() as u64);
        if as_case {
            do_using(w, ops, &frame[..n], Damage::Other);
            w.stats.hit("truncations");
        } else {
            let b = &frame[..n];
            let v = (ops.using)(b);
            w.stats.hit("oracle_only_truncations");
            if v != Verdict::Err {
                let case = format!("using {} {:x} {}", ops.name, ops.fixed, hx(b));
                judge_using(w, ops, &case, b, v, Damage::Other);
            }
        }
    }
    // every checksum-valid short body: a prefix of the body with its own trailer
    let body = &frame[..frame.len() - 4];
    let step = if with_model { 1 } else { 1 + body.len() / 64 };
    let mut k = 0;
    while k < body.len() {
        let mut b = body[..k].to_vec();
        b.extend_from_slice(&crc32fast::hash(&body[..k]).to_le_bytes());
        do_using(w, ops, &b, Damage::Other);
        w.stats.hit("checksum_valid_prefixes");
        k += step;
    }
    // extensions by 1..8 bytes
    for n in 1..=8usize {
        for mode in 0..3 {
            let mut b = frame.to_vec();
            match mode {
                0 => b.extend(std::iter::repeat(0u8).take(n)),
                1 => b.extend(rand_bytes(rng, n)),
                _ => {
                    // the frame followed by bytes that make the checksum hold again
                    b.extend(std::iter::repeat(0u8).take(n.saturating_sub(4)));
                    if n >= 4 {
                        let c = crc32fast::hash(&b).to_le_bytes();
                        b.extend_from_slice(&c);
                    } else {
                        b.extend(rand_bytes(rng, n));
                    }
                },
            }
            do_using(w, ops, &b, Damage::Other);
            w.stats.hit("extensions");
        }
    }
    // other damage: byte replaced, two bits, bytes swapped, trailer zeroed, body dropped
    for _ in 0..16 {
        let mut b = frame.to_vec();
        match rng.below(5) {
            0 => {
                let i = rng.below(b.len() as u64) as usize;
                b[i] = rng.next() as u8;
            },
            1 => {
                let i = rng.below(nbits as u64) as usize;
                let j = rng.below(nbits as u64) as usize;
                b[i / 8] ^= 1 << (i % 8);
                b[j / 8] ^= 1 << (j % 8);
            },
            2 => {
                let i = rng.below(b.len() as u64) as usize;
                let j = rng.below(b.len() as u64) as usize;
                b.swap(i, j);
            },
            3 => {
                let n = b.len();
                for x in &mut b[n - 4..] {
                    *x = 0;
                }
            },
            _ => {
                let n = b.len();
                b = b[n - 4..].to_vec();
            },
        }
        do_using(w, ops, &b, Damage::Other);
        w.stats.hit("other_damage");
    }
}

/// A frame of roughly `size` bytes (between 60 % of it and `size + 64`), or the
/// closest to that among 60 draws.
fn gen_sized(ops: &Ops, rng: &mut Rng, size: usize) -> Vec<u8> {
    let mut best: Option<Vec<u8>> = None;
    for _ in 0..60 {
        let (frame, _) = (ops.gen)(rng, size);
        if frame.len() * 10 >= size * 6 && frame.len() <= size + 64 {
            return frame;
        }
        let better = match &best {
            None => true,
            Some(b) => frame.len() <= size + 64 && (b.len() > size + 64 || frame.len() > b.len()),
        };
        if better {
            best = Some(frame);
        }
    }
    best.unwrap()
}

fn find<'a>(ops: &'a [Ops], name: &str) -> Option<&'a Ops> {
    ops.iter().find(|o| o.name == name)
}

fn replay(w: &mut CaseWriter, ops: &[Ops], path: &std::path::Path) {
    let text = std::fs::read_to_string(path).unwrap();
    let mut ctx: Option<Ctx> = None;
    let us = |s: &str| usize::from_str_radix(s, 16).unwrap();
    for line in text.lines() {
        let mut t: Vec<&str> = line.split_whitespace().collect();
        // "echo@<n>": the exchange ran with bodies delivered in pieces of n bytes
        let mut chunk = 0;
        if let Some(k) = t.first().copied() {
            if let Some((base, n)) = k.split_once('@') {
                chunk = us(n);
                t[0] = base;
            }
        }
        set_chunk(chunk);
        match t.as_slice() {
            ["using", ty, fixed, bytes] => match find(ops, ty) {
                Some(o) if o.fixed == us(fixed) => do_using(w, o, &unhx(bytes), Damage::Other),
                _ => w.case(line, "?unknown-type-or-size"),
            },
            ["flip", ty, fixed, i, bytes] => match find(ops, ty) {
                Some(o) if o.fixed == us(fixed) && us(i) < 8 * unhx(bytes).len() => {
                    do_flip(w, o, &unhx(bytes), us(i))
                },
                _ => w.case(line, "?unknown-type-or-size"),
            },
            [kind @ ("frame" | "crc"), ty, body] => match find(ops, ty) {
                Some(o) => {
                    let mut f = unhx(body);
                    let c = crc32fast::hash(&f).to_le_bytes();
                    f.extend_from_slice(&c);
                    match (o.reframe)(&f) {
                        Some(again) => do_frame(w, o, kind, &again, again == f),
                        None => {
                            w.case(line, "?not-a-frame-of-this-type");
                        },
                    }
                },
                None => w.case(line, "?unknown-type-or-size"),
            },
            ["rpc", ty, fixed, bytes] => match find(ops, ty) {
                Some(o) if o.fixed == us(fixed) => {
                    let c = ctx.get_or_insert_with(make_ctx);
                    do_rpc(w, c, o, &unhx(bytes))
                },
                _ => w.case(line, "?unknown-type-or-size"),
            },
            ["echo", ty, fixed, bytes] => match find(ops, ty) {
                Some(o) if o.fixed == us(fixed) => {
                    let c = ctx.get_or_insert_with(make_ctx);
                    do_echo(w, c, o, &unhx(bytes))
                },
                _ => w.case(line, "?unknown-type-or-size"),
            },
            ["status", code, msg] => {
                let c = ctx.get_or_insert_with(make_ctx);
                match String::from_utf8(unhx(msg)) {
                    Ok(m) => do_status(w, c, us(code) as u8, &m),
                    Err(_) => w.case(line, "?message-not-utf8"),
                }
            },
            _ => {},
        }
    }
    set_chunk(0);
}

fn main() {
    if std::env::var_os("HX_LOUD").is_none() {
        quiet_panics();
    }
    let args = Args::parse();
    let mut rng = Rng::new(args.seed);
    let mut w = CaseWriter::new(&args.dir, "frame");
    let ops = all_ops();

    if let Some(path) = &args.replay {
        replay(&mut w, &ops, path);
        w.finish(&[]);
        return;
    }
    let thorough = args.thorough();
    // `light=1`: the reduced stream used for the debug-assertions build
    let light = args.get_u64("light", 0) == 1;

    // 0. fixed witnesses: four zero bytes, nothing, short junk — for every type
    for o in &ops {
        for b in [&[][..], &[0u8][..], &[0, 0, 0][..], &[0, 0, 0, 0][..], &[0, 0, 0, 0, 0][..],
                  &[0xFF, 0xFF, 0xFF, 0xFF][..], b"Hello, world!"] {
            do_using(&mut w, o, b, Damage::Other);
        }
        // a zero body of exactly the fixed size / one byte less, with its checksum
        for n in [o.fixed.saturating_sub(1), o.fixed, o.fixed + 1] {
            let mut b = vec![0u8; n];
            let c = crc32fast::hash(&b).to_le_bytes();
            b.extend_from_slice(&c);
            do_using(&mut w, o, &b, Damage::Other);
        }
    }

    // 1. to_view_bytes: trailer and whole frame against the model's CRC
    let blob = find(&ops, "blob").unwrap();
    let mut sizes: Vec<usize> = vec![
        0, 1, 2, 3, 4, 5, 7, 8, 9, 15, 16, 17, 31, 32, 33, 63, 64, 65, 255, 256, 257, 1023, 1024, 4095, 4096,
        4097, 65535, 65536,
    ];
    let n_rand = if light { 10 } else if thorough { 300 } else { 60 };
    for _ in 0..n_rand {
        // log-uniform 0 .. 64 KiB
        let bits = rng.below(17);
        sizes.push(rng.below(1u64 << bits) as usize + rng.below(2) as usize);
    }
    for &n in &sizes {
        let (frame, same) = (blob.gen)(&mut rng, n);
        do_frame(&mut w, blob, "frame", &frame, same);
        w.stats.hit(if n >= 4096 { "frame_body_4k_and_more" } else { "frame_body_below_4k" });
    }
    for o in &ops {
        let n = if light { 5 } else if thorough { 200 } else { 40 };
        for _ in 0..n {
            let size = rng.below(600) as usize;
            let (frame, same) = (o.gen)(&mut rng, size);
            do_frame(&mut w, o, "frame", &frame, same);
        }
    }
    // ~1 MiB payloads: checksum only
    let n_big = if light { 1 } else if thorough { 4 } else { 1 };
    for k in 0..n_big {
        let (frame, same) = (blob.gen)(&mut rng, (1 << 20) + k * 12345);
        do_frame(&mut w, blob, "crc", &frame, same);
        w.stats.hit("crc_1mib");
    }

    // 2. every single-bit flip / truncation / extension of real frames
    //    (a) small frames, every mutation also run on the model
    let small_sizes: &[usize] = if light { &[0, 24] } else if thorough { &[0, 9, 40, 120, 300] } else { &[0, 9, 40, 120] };
    for o in &ops {
        for &size in small_sizes {
            let (frame, _) = (o.gen)(&mut rng, size);
            if frame.len() <= 700 {
                w.stats.add("bytes_swept_with_model", frame.len() as u64);
                sweep_frame(&mut w, &mut rng, o, &frame, true);
            }
            if o.name == "empty" || o.name == "fixed" {
                break;
            }
        }
    }
    //    (b) one or more medium frames with the model (cost grows with the square)
    if !light {
        let medium: &[(&str, usize)] = if thorough {
            &[("nested", 700), ("text", 1000), ("blob", 2000), ("status", 700), ("nested", 3000)]
        } else {
            &[("nested", 700), ("text", 500), ("blob", 1024)]
        };
        for (name, size) in medium {
            let o = find(&ops, name).unwrap();
            let frame = gen_sized(o, &mut rng, *size);
            w.stats.add("bytes_swept_with_model", frame.len() as u64);
            sweep_frame(&mut w, &mut rng, o, &frame, true);
        }
    }
    //    (c) frames up to ~4 KiB: every flip and truncation judged by the oracle,
    //        a sample of the flips also run on the model
    let large: &[(&str, usize)] = if light {
        &[("text", 600)]
    } else if thorough {
        &[("text", 4000), ("nested", 4000), ("blob", 4080), ("status", 3000), ("blob", 2500), ("nested", 1500), ("deep", 3500)]
    } else {
        &[("text", 2000), ("nested", 3000), ("blob", 4080), ("status", 1200), ("deep", 2600)]
    };
    for (name, size) in large {
        let o = find(&ops, name).unwrap();
        let frame = gen_sized(o, &mut rng, *size);
        w.stats.add("bytes_swept_oracle_only", frame.len() as u64);
        sweep_frame(&mut w, &mut rng, o, &frame, false);
    }

    // 3. whole exchanges through the in-process transport
    let ctx = make_ctx();
    for o in &ops {
        if o.echo.is_none() {
            continue;
        }
        let n = if light { 4 } else if thorough { 200 } else { 30 };
        for k in 0..n {
            let size = match k % 6 {
                0 => 0,
                1 => 8,
                2 => 100,
                3 => 1000,
                4 => 70_000,
                _ => rng.below(5000) as usize,
            };
            let (frame, _) = (o.gen)(&mut rng, size);
            do_echo(&mut w, &ctx, o, &frame);
            if frame.len() > 20_000 {
                continue;
            }
            // the same frame, and damaged versions of it, as raw request bytes
            do_rpc(&mut w, &ctx, o, &frame);
            let nbits = frame.len() * 8;
            let nflips = if frame.len() <= 64 { nbits } else { 24 };
            for j in 0..nflips {
                let i = if frame.len() <= 64 { j } else { rng.below(nbits as u64) as usize };
                do_rpc(&mut w, &ctx, o, &flipped(&frame, i));
            }
            let ntr = if frame.len() <= 64 { frame.len() } else { 12 };
            for j in 0..ntr {
                let cut = if frame.len() <= 64 { j } else { rng.below(frame.len() as u64) as usize };
                do_rpc(&mut w, &ctx, o, &frame[..cut]);
            }
            // checksum-valid short bodies
            let body = &frame[..frame.len() - 4];
            // (only those shorter than the archived type: a longer checksum-valid
            // prefix is accepted by design and its content is cast unchecked, so
            // letting a handler read it would be undefined behaviour)
            for cut in [0usize, 1, o.fixed / 2, o.fixed.saturating_sub(1)] {
                if cut <= body.len() && cut < o.fixed {
                    let mut b = body[..cut].to_vec();
                    let c = crc32fast::hash(&b).to_le_bytes();
                    b.extend_from_slice(&c);
                    do_rpc(&mut w, &ctx, o, &b);
                }
            }
            let mut ext = frame.clone();
            let extra = 1 + rng.below(8) as usize;
            ext.extend(rand_bytes(&mut rng, extra));
            do_rpc(&mut w, &ctx, o, &ext);
        }
    }
    // 4. the same exchanges with the transport delivering request and reply bodies in pieces
    //    without a length hint (what a HTTP/2 connection may do to a body): reassembly must
    //    return every byte
    for chunk in [1usize, 3, 16, 1000] {
        set_chunk(chunk);
        for o in &ops {
            if o.echo.is_none() {
                continue;
            }
            let sizes: &[usize] = if light { &[8, 100] } else if thorough { &[0, 1, 8, 40, 100, 1000, 5000, 70_000] } else { &[0, 8, 100, 1000, 5000] };
            for &size in sizes {
                if chunk == 1 && size > 1000 {
                    continue;
                }
                let (frame, _) = (o.gen)(&mut rng, size);
                do_echo(&mut w, &ctx, o, &frame);
                if frame.len() <= 2000 {
                    do_rpc(&mut w, &ctx, o, &frame);
                    do_rpc(&mut w, &ctx, o, &flipped(&frame, rng.below(frame.len() as u64 * 8) as usize));
                }
                w.stats.hit("chunked_body_exchanges");
            }
        }
        for msg in ["", "x", "Invalid message payload was provided to be deserialized."] {
            do_status(&mut w, &ctx, 2, msg);
        }
        let m = rand_string(&mut rng, 3000);
        do_status(&mut w, &ctx, 4, &m);
    }
    set_chunk(0);

    // handler errors
    for code in 0..5u8 {
        for msg in ["", "x", "Invalid message payload was provided to be deserialized.", "naïve \u{1F980} \0 end"] {
            do_status(&mut w, &ctx, code, msg);
        }
        let n = if light { 2 } else if thorough { 60 } else { 12 };
        for k in 0..n {
            let len = if k == 0 { 70_000 } else { rng.below(400) as usize };
            let m = rand_string(&mut rng, len);
            do_status(&mut w, &ctx, code, &m);
        }
    }

    w.finish(&[("types", ops.len().to_string())]);
}
