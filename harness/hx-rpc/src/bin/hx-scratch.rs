//! hx-scratch: implementation executor for the serializer's scratch space (C12,
//! component `scratch`).
//!
//! `to_view_bytes` serializes with a `LazyScratch` (datacake-rpc/src/rkyv_tooling/scratch.rs):
//! a 1 KiB buffer, a lazily created 16 KiB buffer and the global allocator, tried in turn.
//! This executor drives the real `LazyScratch` (re-exported under the `verif-hooks` feature)
//! through rkyv's `ScratchSpace` trait with traces of requests and releases:
//!
//!   * `lifo`  — nested sessions, the serializer's discipline (every block released with the
//!               layout it was obtained with, last obtained first released, no empty block).
//!               Oracle: nothing is refused, nothing panics, nothing stays allocated.
//!   * `free`  — any order, any layouts on release (the malformed stream): compared with the
//!               model only.
//!
//! Case line:   `lifo|free  p<size>:<align> ... o<k>:<size>:<align> ...`   (hex)
//! Result line: one token per step — `s<off>` / `h<off>` / `a<id>` (tier and offset of the
//! block handed out), `ok` / `err` / `panic` / `bad` for a release — then
//! `| <pos of the first buffer> <pos of the second buffer or -> <allocations in progress>`.

use std::alloc::Layout;
use std::ptr::NonNull;

use datacake_rpc::verif::LazyScratch;
use hxcommon::{no_panic, quiet_panics, Args, CaseWriter, Rng};
use rkyv::ser::ScratchSpace;

const STACK: usize = 1024;
const HEAP: usize = 16 << 10;

#[derive(Clone, Copy, Debug, PartialEq)]
enum Op {
    Push { size: usize, align: usize },
    Pop { k: usize, size: usize, align: usize },
}

fn show_ops(kind: &str, ops: &[Op]) -> String {
    let mut s = String::from(kind);
    for o in ops {
        match o {
            Op::Push { size, align } => s.push_str(&format!(" p{size:x}:{align:x}")),
            Op::Pop { k, size, align } => s.push_str(&format!(" o{k:x}:{size:x}:{align:x}")),
        }
    }
    s
}

fn parse_ops(toks: &[&str]) -> Option<Vec<Op>> {
    let mut v = Vec::new();
    for t in toks {
        let (head, rest) = t.split_at(1);
        let parts: Vec<usize> = rest
            .split(':')
            .map(|x| usize::from_str_radix(x, 16))
            .collect::<Result<_, _>>()
            .ok()?;
        match (head, parts.as_slice()) {
            ("p", [size, align]) => v.push(Op::Push { size: *size, align: *align }),
            ("o", [k, size, align]) => v.push(Op::Pop { k: *k, size: *size, align: *align }),
            _ => return None,
        }
    }
    Some(v)
}

/// Addresses after every occurrence of `key` in the Debug text of the scratch space.
fn numbers_after(text: &str, key: &str, radix: u32) -> Vec<usize> {
    let mut out = Vec::new();
    let mut rest = text;
    while let Some(i) = rest.find(key) {
        rest = &rest[i + key.len()..];
        let digits: String = rest.chars().take_while(|c| c.is_digit(radix)).collect();
        if let Ok(n) = usize::from_str_radix(&digits, radix) {
            out.push(n);
        }
    }
    out
}

/// The buffer pointers (`ptr: Some(..)`) in the Debug text, in field order: a fat pointer prints
/// as `Pointer { addr: 0x.., metadata: .. }` or as a bare address depending on the toolchain.
fn buffer_pointers(text: &str) -> Vec<usize> {
    let mut out = Vec::new();
    let mut rest = text;
    while let Some(i) = rest.find("ptr: Some(") {
        rest = &rest[i + 10..];
        let window = &rest[..rest.len().min(48)];
        if let Some(j) = window.find("0x") {
            let digits: String = window[j + 2..].chars().take_while(|c| c.is_ascii_hexdigit()).collect();
            if let Ok(n) = usize::from_str_radix(&digits, 16) {
                out.push(n);
            }
        }
    }
    out
}

struct Observed {
    steps: Vec<String>,
    refused: bool,
    panicked: bool,
    allocs_left: usize,
    state: String,
}

fn run(ops: &[Op]) -> Observed {
    // boxed: BufferScratch keeps a pointer into the buffer it owns, the value must not move
    let mut ls: Box<LazyScratch> = Box::default();
    let mut handles: Vec<NonNull<u8>> = Vec::new();
    let mut steps = Vec::new();
    let mut stack_base: Option<usize> = None;
    let mut heap_base: Option<usize> = None;
    let mut n_alloc = 0usize;
    let mut refused = false;
    let mut panicked = false;
    for op in ops {
        match *op {
            Op::Push { size, align } => {
                let layout = Layout::from_size_align(size, align).expect("layout");
                let r = no_panic(|| unsafe { ls.push_scratch(layout) });
                match r {
                    None => {
                        steps.push("panic".to_string());
                        panicked = true;
                        break;
                    },
                    Some(Err(_)) => {
                        steps.push("refused".to_string());
                        refused = true;
                        break;
                    },
                    Some(Ok(block)) => {
                        let p = block.cast::<u8>();
                        let addr = p.as_ptr() as usize;
                        handles.push(p);
                        if stack_base.is_none() || heap_base.is_none() {
                            let text = format!("{:?}", ls);
                            let ptrs = buffer_pointers(&text);
                            stack_base = ptrs.first().copied();
                            heap_base = ptrs.get(1).copied();
                        }
                        let sb = stack_base.expect("first buffer's pointer is computed by the first request");
                        if addr >= sb && addr < sb + STACK {
                            steps.push(format!("s{:x}", addr - sb));
                        } else if heap_base.map(|hb| addr >= hb && addr < hb + HEAP).unwrap_or(false) {
                            steps.push(format!("h{:x}", addr - heap_base.unwrap()));
                        } else {
                            steps.push(format!("a{:x}", n_alloc));
                            n_alloc += 1;
                        }
                    },
                }
            },
            Op::Pop { k, size, align } => {
                let Some(&p) = handles.get(k) else {
                    steps.push("bad".to_string());
                    continue;
                };
                let layout = Layout::from_size_align(size, align).expect("layout");
                match no_panic(|| unsafe { ls.pop_scratch(p, layout) }) {
                    None => {
                        steps.push("panic".to_string());
                        panicked = true;
                        break;
                    },
                    Some(Ok(())) => steps.push("ok".to_string()),
                    Some(Err(_)) => {
                        steps.push("err".to_string());
                        refused = true;
                    },
                }
            },
        }
    }
    let text = format!("{:?}", ls);
    let pos = numbers_after(&text, "pos: ", 10);
    let allocs_left = text
        .find("allocations:")
        .map(|i| text[i..].matches("Layout {").count())
        .unwrap_or(0);
    let heap_exists = text.contains("heap_scratch: Some(");
    let state = format!(
        "{:x} {} {:x}",
        pos.first().copied().unwrap_or(usize::MAX),
        if heap_exists { format!("{:x}", pos.get(1).copied().unwrap_or(usize::MAX)) } else { "-".to_string() },
        allocs_left
    );
    Observed { steps, refused, panicked, allocs_left, state }
}

fn do_case(w: &mut CaseWriter, kind: &str, ops: &[Op]) {
    let case = show_ops(kind, ops);
    let obs = run(ops);
    let result = format!("{} | {}", obs.steps.join(" "), obs.state);
    if kind == "free" {
        // The allocator may hand out the address of a block it has taken back; a second release of
        // such a block is then judged by an address the model has no notion of: not a case.
        let mut from_allocator = Vec::new();
        let mut released = std::collections::BTreeSet::new();
        for (op, step) in ops.iter().zip(&obs.steps) {
            match op {
                Op::Push { .. } => from_allocator.push(step.starts_with('a')),
                Op::Pop { k, .. } => {
                    if from_allocator.get(*k).copied().unwrap_or(false) {
                        if released.contains(k) {
                            w.stats.hit("free_traces_skipped_second_release_of_an_allocation");
                            return;
                        }
                        if step == "ok" {
                            released.insert(*k);
                        }
                    }
                },
            }
        }
    }
    w.case(&case, &result);
    if kind == "lifo" {
        w.stats.hit("lifo_traces");
        for s in &obs.steps {
            match s.as_bytes()[0] {
                b's' => w.stats.hit("blocks_in_first_buffer"),
                b'h' => w.stats.hit("blocks_in_second_buffer"),
                b'a' => w.stats.hit("blocks_from_allocator"),
                _ => {},
            }
        }
        if obs.refused || obs.panicked || obs.allocs_left != 0 {
            w.fail(
                "scratch-refuses-the-serializer",
                &case,
                &format!(
                    "nested requests and releases: refused={} panicked={} allocations left={} steps: {}",
                    obs.refused, obs.panicked, obs.allocs_left, result
                ),
            );
        }
    } else {
        w.stats.hit("free_traces");
        if obs.panicked {
            w.stats.hit("free_traces_ending_in_a_panic");
        }
        if obs.refused {
            w.stats.hit("free_traces_with_a_refusal");
        }
    }
}

const ALIGNS: [usize; 5] = [1, 2, 4, 8, 16];

fn gen_size(rng: &mut Rng) -> usize {
    match rng.below(10) {
        0..=3 => 1 + rng.below(64) as usize,
        4 => 1 + rng.below(1100) as usize,
        5 | 6 => (STACK as i64 - 24 + rng.below(49) as i64) as usize,
        7 => (HEAP as i64 - 24 + rng.below(49) as i64) as usize,
        8 => 1 + rng.below(20000) as usize,
        _ => 8 * (1 + rng.below(140) as usize),
    }
}

/// A forest of nested sessions, flattened; pushes are numbered in trace order.
fn gen_forest(rng: &mut Rng, budget: &mut usize, depth: usize, ops: &mut Vec<Op>, next: &mut usize) {
    while *budget > 0 && !rng.chance(1, 3) {
        *budget -= 1;
        let size = gen_size(rng);
        let align = *rng.pick(&ALIGNS);
        let k = *next;
        *next += 1;
        ops.push(Op::Push { size, align });
        if depth < 6 && rng.chance(2, 3) {
            gen_forest(rng, budget, depth + 1, ops, next);
        }
        ops.push(Op::Pop { k, size, align });
    }
}

fn main() {
    quiet_panics();
    let args = Args::parse();
    let mut rng = Rng::new(args.seed ^ 0x5c7a_7c4);
    let mut w = CaseWriter::new(&args.dir, "scratch");

    if let Some(path) = &args.replay {
        let text = std::fs::read_to_string(path).unwrap();
        for line in text.lines() {
            let t: Vec<&str> = line.split_whitespace().collect();
            if t.is_empty() || (t[0] != "lifo" && t[0] != "free") {
                continue;
            }
            if let Some(ops) = parse_ops(&t[1..]) {
                let sane = ops.iter().all(|o| match o {
                    Op::Push { size, align } | Op::Pop { size, align, .. } => {
                        *size >= 1 && *size <= (1 << 24) && ALIGNS.contains(align)
                    },
                });
                if sane {
                    do_case(&mut w, t[0], &ops);
                }
            }
        }
        w.finish(&[]);
        return;
    }

    // 1. every nested chain (depth <= 3, 4 thorough) over boundary layouts, with and without a
    //    sibling inside the innermost block
    let layouts: &[(usize, usize)] = &[
        (1, 1), (8, 8), (24, 16), (1000, 8), (1016, 8), (1024, 8), (1025, 1), (1024, 16),
        (16376, 8), (16384, 16), (16385, 1), (40000, 8),
    ];
    let max_depth = if args.thorough() { 4 } else { 3 };
    let mut idx = vec![0usize; 1];
    loop {
        let chain: Vec<(usize, usize)> = idx.iter().map(|&i| layouts[i]).collect();
        let mut ops = Vec::new();
        for (size, align) in &chain {
            ops.push(Op::Push { size: *size, align: *align });
        }
        for (k, (size, align)) in chain.iter().enumerate().rev() {
            ops.push(Op::Pop { k, size: *size, align: *align });
        }
        do_case(&mut w, "lifo", &ops);
        w.stats.hit("exhaustive_chains");
        // next index vector (all lengths 1..=max_depth)
        let mut i = idx.len();
        loop {
            if i == 0 {
                idx = vec![0; idx.len() + 1];
                break;
            }
            i -= 1;
            if idx[i] + 1 < layouts.len() {
                idx[i] += 1;
                for j in i + 1..idx.len() {
                    idx[j] = 0;
                }
                break;
            }
        }
        if idx.len() > max_depth {
            break;
        }
    }

    // 2. random forests of nested sessions
    let n_lifo = args.get_u64("lifo", if args.thorough() { 40000 } else { 4000 });
    for _ in 0..n_lifo {
        let mut ops = Vec::new();
        let mut budget = 1 + rng.below(14) as usize;
        let mut next = 0;
        while ops.is_empty() {
            gen_forest(&mut rng, &mut budget, 0, &mut ops, &mut next);
        }
        do_case(&mut w, "lifo", &ops);
    }

    // 3. the malformed stream: releases in any order, with other layouts, twice, of unknown blocks
    let n_free = args.get_u64("free", if args.thorough() { 20000 } else { 2500 });
    for _ in 0..n_free {
        let mut ops = Vec::new();
        let mut pushed: Vec<(usize, usize)> = Vec::new();
        let n = 1 + rng.below(10);
        for _ in 0..n {
            if pushed.is_empty() || rng.chance(1, 2) {
                let size = gen_size(&mut rng);
                let align = *rng.pick(&ALIGNS);
                pushed.push((size, align));
                ops.push(Op::Push { size, align });
            } else {
                let k = if rng.chance(1, 12) { pushed.len() + 1 } else { rng.below(pushed.len() as u64) as usize };
                let (size, align) = pushed.get(k).copied().unwrap_or((8, 8));
                let (size, align) = match rng.below(8) {
                    0 => (gen_size(&mut rng), align),
                    1 => (size, *rng.pick(&ALIGNS)),
                    _ => (size, align),
                };
                ops.push(Op::Pop { k, size, align });
            }
        }
        do_case(&mut w, "free", &ops);
    }
    w.finish(&[]);
}
