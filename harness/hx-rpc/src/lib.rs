// shared helpers of the hx-rpc executors
