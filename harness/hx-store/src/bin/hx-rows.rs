//! hx-rows: stored rows whose stamp column does not hold a timestamp (C10: "parsing ... returns a
//! timestamp or an error but never panics", reachable from stored SQLite rows).
//!
//! The SQLite backend keeps stamps as their text form.  For every text of the case file a row is
//! written behind the backend's back (`StorageHandle::execute`, the crate's own table) and read
//! through every read path of the `Storage` trait:
//!   row <hex bytes of the text>    ->   get=<ok:stamp|err|panic> meta=<ok:stamp|err|panic> alive=<0|1>
//! `alive` = a well-formed row of another keyspace can still be written and read afterwards.
//!   bulk <n> <pos>                 ->   a `multi_put` of n documents whose <pos>-th row is refused by the
//!                                       database (a trigger): the call must fail, NOTHING of the batch may
//!                                       be visible (the backend reports no successful ids), and the storage
//!                                       must keep serving single and bulk writes: `err rows=0 after=ok`
//! The model (Ts.v `parse`) says: readable exactly when the text parses, otherwise an error on
//! both paths, and the storage keeps serving.

use std::sync::Arc;

use datacake_crdt::HLCTimestamp;
use datacake_eventual_consistency::{Document, Storage};
use datacake_sqlite::SqliteStorage;
use hxcommon::{hex_bytes, quiet_panics, unhex_bytes, Args, CaseWriter, Rng};

static INSERT_RAW: &str = "INSERT INTO state_entries (keyspace, doc_id, ts, data) VALUES (?, ?, ?, ?);";

async fn run_row(w: &mut CaseWriter, text: &[u8]) {
    let case = format!("row {}", hex_bytes(text));
    // the column is TEXT: only valid UTF-8 can be stored as such
    let Ok(s) = String::from_utf8(text.to_vec()) else { return };
    let storage = match SqliteStorage::open_in_memory().await {
        Ok(s) => Arc::new(s),
        Err(_) => {
            w.case(&case, "?open");
            return;
        },
    };
    let ks = "rows".to_string();
    if storage.handle().execute(INSERT_RAW, (ks.clone(), 1i64, s, b"data".to_vec())).await.is_err() {
        w.case(&case, "?insert");
        return;
    }
    let st = storage.clone();
    let k2 = ks.clone();
    let get = match tokio::spawn(async move { st.get(&k2, 1).await.map(|d| d.map(|d| d.last_updated().as_u64())) }).await {
        Err(_) => "panic".to_string(),
        Ok(Err(_)) => "err".to_string(),
        Ok(Ok(Some(t))) => format!("ok:{:x}", t),
        Ok(Ok(None)) => "none".to_string(),
    };
    let st = storage.clone();
    let k2 = ks.clone();
    let meta = match tokio::spawn(async move {
        st.iter_metadata(&k2).await.map(|it| it.map(|(_, t, _)| t.as_u64()).collect::<Vec<u64>>())
    })
    .await
    {
        Err(_) => "panic".to_string(),
        Ok(Err(_)) => "err".to_string(),
        Ok(Ok(v)) if v.len() == 1 => format!("ok:{:x}", v[0]),
        Ok(Ok(v)) => format!("rows:{}", v.len()),
    };
    let st = storage.clone();
    let alive = tokio::spawn(async move {
        let ts = HLCTimestamp::new(std::time::Duration::from_secs(5), 3, 7);
        let doc = Document::new(9, ts, b"fine".to_vec());
        st.put("healthy", doc.clone()).await.is_ok() && st.get("healthy", 9).await.ok().flatten() == Some(doc)
    })
    .await
    .unwrap_or(false);
    w.case(&case, &format!("get={} meta={} alive={}", get, meta, alive as u8));
    w.stats.hit(if get.starts_with("ok") { "row_readable" } else { "row_refused" });
    if get == "panic" || meta == "panic" {
        w.fail("malformed-row-panics", &case, &format!("get={get} meta={meta}"));
    }
    if !alive {
        w.fail("storage-dead-after-malformed-row", &case, &format!("get={get} meta={meta}"));
    }
}

async fn run_bulk(w: &mut CaseWriter, n: u64, pos: u64) {
    let case = format!("bulk {:x} {:x}", n, pos);
    let storage = match SqliteStorage::open_in_memory().await {
        Ok(s) => Arc::new(s),
        Err(_) => {
            w.case(&case, "?open");
            return;
        },
    };
    let ts = |i: u64| HLCTimestamp::new(std::time::Duration::from_secs(100 + i), 0, 1);
    // the table exists once something was written
    let _ = storage.put("warm", Document::new(1, ts(0), b"w".to_vec())).await;
    let trigger = format!(
        "CREATE TRIGGER refuse_row BEFORE INSERT ON state_entries WHEN NEW.keyspace = 'bulk' AND NEW.doc_id = {} BEGIN SELECT RAISE(ABORT, 'refused'); END;",
        pos
    );
    if storage.handle().execute(&trigger, ()).await.is_err() {
        w.case(&case, "?trigger");
        return;
    }
    let docs: Vec<Document> = (1..=n).map(|i| Document::new(i, ts(i), vec![i as u8])).collect();
    let res = storage.multi_put("bulk", docs.into_iter()).await;
    let rows = storage.iter_metadata("bulk").await.map(|it| it.count()).unwrap_or(usize::MAX);
    // afterwards: a single write and a bulk write elsewhere, and a bulk into the same keyspace
    // without the refused id
    let single = storage.put("after", Document::new(7, ts(50), b"s".to_vec())).await.is_ok();
    let bulk2 = storage
        .multi_put("after", (20..23u64).map(|i| Document::new(i, ts(60 + i), vec![1])))
        .await
        .is_ok();
    let seen = storage.iter_metadata("after").await.map(|it| it.count()).unwrap_or(usize::MAX);
    let after_ok = single && bulk2 && seen == 4;
    let r = if res.is_err() { "err" } else { "ok" };
    w.case(&case, &format!("{} rows={} after={}", r, rows, if after_ok { "ok" } else { "broken" }));
    w.stats.hit("bulk_with_refused_row");
    if res.is_ok() {
        w.fail("failed-bulk-reported-as-success", &case, "");
    }
    if rows != 0 {
        w.fail("failed-bulk-left-rows-behind", &case, &format!("{} rows of the failed batch are visible", rows));
    }
    if !after_ok {
        w.fail("storage-unusable-after-failed-bulk", &case, &format!("single={single} bulk={bulk2} rows seen={seen}"));
    }
}

fn main() {
    quiet_panics();
    let args = Args::parse();
    let mut w = CaseWriter::new(&args.dir, "rows");
    let rt = tokio::runtime::Builder::new_multi_thread().worker_threads(2).enable_all().build().unwrap();
    rt.block_on(async {
        if let Some(path) = &args.replay {
            for line in std::fs::read_to_string(path).unwrap().lines() {
                let t: Vec<&str> = line.split_whitespace().collect();
                if t.first() == Some(&"row") {
                    run_row(&mut w, &unhex_bytes(t.get(1).copied().unwrap_or(""))).await;
                }
                if let ["bulk", n, pos] = t.as_slice() {
                    run_bulk(&mut w, u64::from_str_radix(n, 16).unwrap_or(1), u64::from_str_radix(pos, 16).unwrap_or(1)).await;
                }
            }
            return;
        }
        let mut rng = Rng::new(args.seed);
        let fixed: [&str; 22] = [
            "", "not-a-timestamp", "4294967296-0000-0000-0000", "4294967295-0250-0000-0000", "4294967295-0249-FFFF-0255",
            "18446744073709551616-0000-0000-0000", "18446744073709551615-255-0-0", "1-0256-0000-0000", "1-0000-10000-0000",
            "1-0000-0000-0256", "1-0000-0000-0000", "0-0-0-0", "1000000000-0000-0000-0000", "999999999-0249-00ff-0001",
            "1--0-0", "-1-0-0-0", "1-0-0-0-0", " 1-0-0-0", "1-0-0-0 ", "1-0x10-0-0", "+1-0-0-0", "1-00000000000000000249-0-0",
        ];
        for f in fixed {
            run_row(&mut w, f.as_bytes()).await;
        }
        // bulk writes with one refused row, at every position of batches of 1..5
        for n in 1..=5u64 {
            for pos in 1..=n {
                run_bulk(&mut w, n, pos).await;
            }
        }
        // random: valid texts, valid texts with one character changed, digit soup
        let n = if args.thorough() { 3000 } else { 300 };
        for i in 0..n {
            let sec = match i % 4 { 0 => rng.below(1 << 32), 1 => (1u64 << 32) - 1 - rng.below(3), 2 => rng.below(2_000_000_000), _ => rng.next() };
            let mut text = format!("{}-{:04}-{:04X}-{:04}", sec, rng.below(300), rng.below(70_000), rng.below(300)).into_bytes();
            if i % 3 == 1 && !text.is_empty() {
                let p = rng.below(text.len() as u64) as usize;
                text[p] = *rng.pick(&[b'-', b'x', b' ', b'9', b'F', b'g', b'0']);
            }
            run_row(&mut w, &text).await;
        }
    });
    w.finish(&[]);
}
