//! hx-store: implementation executor for C17 (storage backends vs the reference model).
//!
//! One case = one backend + one call sequence.  After EVERY call (and once before
//! the first) all observers of the `Storage` trait are evaluated on all three
//! keyspaces: `get_keyspace_list`, `iter_metadata`, `get` for every id of the case's
//! universe, `multi_get` of the universe.  The canonical text of those observations
//! is written to `store.impl` (the extracted Coq reference prints the same text
//! when model and backend agree), and the property's own predicate is evaluated on
//! the backend against a small BTreeMap reference kept inside this executor
//! (independent of the extracted model): same documents / metadata / keyspace list
//! (modulo keyspaces without entries), frame rule, reopen changes nothing, no call
//! fails or panics.  Failures go to `store.fail` with the case truncated after the
//! failing call.
//!
//! Case line:   <backend> u=<id>/<id>/... <op> <op> ...
//!   backend  mem | sqlm (SQLite :memory:) | sqlf (SQLite file) | lmdb
//!   p.<ks>.<id>.<ts>.<pay>            put
//!   P.<ks>.<id>,<ts>,<pay>/...        multi_put (in order; may be empty)
//!   t.<ks>.<id>.<ts>                  mark_as_tombstone
//!   T.<ks>.<id>,<ts>/...              mark_many_as_tombstone
//!   x.<ks>.<id>/...                   remove_tombstones
//!   r                                 close + reopen (no-op for mem and sqlm)
//! numbers are lower-case hex; <ks> is an index into KS_NAMES; payload tokens:
//!   e = empty, b<hh> = one byte, s<hex> = short literal bytes,
//!   k<seed> = 4 KiB pattern, m<seed> = 1 MiB pattern.

use std::collections::{BTreeMap, BTreeSet, HashMap};
use std::path::{Path, PathBuf};
use std::sync::{Arc, Mutex};
use std::time::{Duration, Instant};

use datacake_crdt::HLCTimestamp;
use datacake_eventual_consistency::test_utils::MemStore;
use datacake_eventual_consistency::{Document, DocumentMetadata, Storage};
use datacake_lmdb::LmdbStorage;
use datacake_sqlite::SqliteStorage;
use hxcommon::{hex_bytes, quiet_panics, unhex_bytes, Args, CaseWriter, Rng};

const NKS: usize = 3;
/// Keyspace names; index 2 is the one the generators like to touch first with a tombstone.
const KS_NAMES: [&str; NKS] = ["alpha", "beta_2", "gamma-tomb"];
const BACKENDS: [&str; 4] = ["mem", "sqlm", "sqlf", "lmdb"];
const BOUNDARY_IDS: [u64; 5] = [0, 1, (1 << 63) - 1, 1 << 63, u64::MAX];

// ------------------------------------------------------------------ cases

#[derive(Clone, Debug)]
enum Op {
    Put(usize, u64, u64, String),
    MultiPut(usize, Vec<(u64, u64, String)>),
    Tomb(usize, u64, u64),
    MultiTomb(usize, Vec<(u64, u64)>),
    Purge(usize, Vec<u64>),
    Reopen,
}

impl Op {
    fn ks(&self) -> Option<usize> {
        match self {
            Op::Put(k, ..) | Op::MultiPut(k, ..) | Op::Tomb(k, ..) | Op::MultiTomb(k, ..) | Op::Purge(k, ..) => {
                Some(*k)
            },
            Op::Reopen => None,
        }
    }
    fn show(&self) -> String {
        match self {
            Op::Put(k, id, ts, p) => format!("p.{k:x}.{id:x}.{ts:x}.{p}"),
            Op::MultiPut(k, docs) => format!(
                "P.{k:x}.{}",
                docs.iter().map(|(i, t, p)| format!("{i:x},{t:x},{p}")).collect::<Vec<_>>().join("/")
            ),
            Op::Tomb(k, id, ts) => format!("t.{k:x}.{id:x}.{ts:x}"),
            Op::MultiTomb(k, docs) => format!(
                "T.{k:x}.{}",
                docs.iter().map(|(i, t)| format!("{i:x},{t:x}")).collect::<Vec<_>>().join("/")
            ),
            Op::Purge(k, ids) => {
                format!("x.{k:x}.{}", ids.iter().map(|i| format!("{i:x}")).collect::<Vec<_>>().join("/"))
            },
            Op::Reopen => "r".into(),
        }
    }
    fn parse(tok: &str) -> Option<Op> {
        let h = |s: &str| u64::from_str_radix(s, 16).ok();
        let parts: Vec<&str> = tok.split('.').collect();
        let ks = |s: &str| h(s).map(|k| k as usize).filter(|k| *k < NKS);
        let items = |s: &str| -> Vec<String> {
            s.split('/').filter(|x| !x.is_empty()).map(|x| x.to_string()).collect()
        };
        match parts.as_slice() {
            ["r"] => Some(Op::Reopen),
            ["p", k, id, ts, p] if pay_ok(p) => Some(Op::Put(ks(k)?, h(id)?, h(ts)?, p.to_string())),
            ["P", k, docs] => {
                let mut v = Vec::new();
                for d in items(docs) {
                    let f: Vec<&str> = d.split(',').collect();
                    if f.len() != 3 || !pay_ok(f[2]) {
                        return None;
                    }
                    v.push((h(f[0])?, h(f[1])?, f[2].to_string()));
                }
                Some(Op::MultiPut(ks(k)?, v))
            },
            ["t", k, id, ts] => Some(Op::Tomb(ks(k)?, h(id)?, h(ts)?)),
            ["T", k, docs] => {
                let mut v = Vec::new();
                for d in items(docs) {
                    let f: Vec<&str> = d.split(',').collect();
                    if f.len() != 2 {
                        return None;
                    }
                    v.push((h(f[0])?, h(f[1])?));
                }
                Some(Op::MultiTomb(ks(k)?, v))
            },
            ["x", k, ids] => {
                let mut v = Vec::new();
                for d in items(ids) {
                    v.push(h(&d)?);
                }
                Some(Op::Purge(ks(k)?, v))
            },
            _ => None,
        }
    }
}

/// fraction byte of a packed stamp above 249: not a stamp `HLCTimestamp::new` can build
fn noncanonical_stamp(ts: u64) -> bool {
    (ts >> 24) & 0xff > 249
}

impl Case {
    fn has_noncanonical_stamp(&self) -> bool {
        self.ops.iter().any(|op| match op {
            Op::Put(_, _, ts, _) | Op::Tomb(_, _, ts) => noncanonical_stamp(*ts),
            Op::MultiPut(_, docs) => docs.iter().any(|d| noncanonical_stamp(d.1)),
            Op::MultiTomb(_, docs) => docs.iter().any(|d| noncanonical_stamp(d.1)),
            _ => false,
        })
    }
}

fn pay_ok(p: &str) -> bool {
    let b = p.as_bytes();
    if b.is_empty() || !p.is_ascii() {
        return false;
    }
    let hexrest = p[1..].bytes().all(|c| c.is_ascii_hexdigit());
    match b[0] {
        b'e' => p.len() == 1,
        b'b' => p.len() == 3 && hexrest,
        b's' => p.len() % 2 == 1 && hexrest,
        b'k' | b'm' => p.len() >= 2 && p.len() <= 9 && hexrest,
        _ => false,
    }
}

fn pattern(len: usize, seed: u64) -> Vec<u8> {
    let mut r = Rng::new(seed.wrapping_mul(0x1000_0001).wrapping_add(len as u64));
    let mut v = Vec::with_capacity(len);
    // every pattern starts with the awkward bytes
    v.extend_from_slice(&[0x00, 0xff, 0x00, 0x0a, 0x27, 0x22, 0x80, 0x7f]);
    while v.len() < len {
        v.extend_from_slice(&r.next().to_le_bytes());
    }
    v.truncate(len);
    v
}

fn payload_bytes(tok: &str) -> Vec<u8> {
    match tok.as_bytes()[0] {
        b'e' => Vec::new(),
        b'b' | b's' => unhex_bytes(&tok[1..]),
        b'k' => pattern(4096, u64::from_str_radix(&tok[1..], 16).unwrap()),
        _ => pattern(1 << 20, u64::from_str_radix(&tok[1..], 16).unwrap()),
    }
}

#[derive(Clone, Debug)]
struct Case {
    backend: String,
    universe: Vec<u64>,
    ops: Vec<Op>,
}

impl Case {
    fn show_prefix(&self, nops: usize) -> String {
        let mut s = format!(
            "{} u={}",
            self.backend,
            self.universe.iter().map(|i| format!("{i:x}")).collect::<Vec<_>>().join("/")
        );
        for op in self.ops.iter().take(nops) {
            s.push(' ');
            s.push_str(&op.show());
        }
        s
    }
    fn show(&self) -> String {
        self.show_prefix(self.ops.len())
    }
    fn parse(line: &str) -> Option<Case> {
        let mut it = line.split_whitespace();
        let backend = it.next()?.to_string();
        if !BACKENDS.contains(&backend.as_str()) {
            return None;
        }
        let u = it.next()?.strip_prefix("u=")?;
        let mut universe = Vec::new();
        for x in u.split('/').filter(|x| !x.is_empty()) {
            universe.push(u64::from_str_radix(x, 16).ok()?);
        }
        let mut ops = Vec::new();
        for tok in it {
            ops.push(Op::parse(tok)?);
        }
        Some(Case { backend, universe, ops })
    }
    fn payload_table(&self) -> HashMap<Vec<u8>, String> {
        let mut t = HashMap::new();
        let mut add = |p: &String| {
            t.entry(payload_bytes(p)).or_insert_with(|| p.clone());
        };
        for op in &self.ops {
            match op {
                Op::Put(_, _, _, p) => add(p),
                Op::MultiPut(_, docs) => docs.iter().for_each(|(_, _, p)| add(p)),
                _ => {},
            }
        }
        t
    }
}

// ------------------------------------------------------------ the oracle's reference

/// The property's reference, written once more in Rust (independent of the
/// extracted Coq model): (keyspace, id) -> (stamp, Some(payload token) | None).
#[derive(Default, Clone)]
struct Reference {
    m: BTreeMap<(usize, u64), (u64, Option<String>)>,
}

impl Reference {
    fn apply(&mut self, op: &Op) {
        match op {
            Op::Put(k, id, ts, p) => {
                self.m.insert((*k, *id), (*ts, Some(p.clone())));
            },
            Op::MultiPut(k, docs) => {
                for (id, ts, p) in docs {
                    self.m.insert((*k, *id), (*ts, Some(p.clone())));
                }
            },
            Op::Tomb(k, id, ts) => {
                self.m.insert((*k, *id), (*ts, None));
            },
            Op::MultiTomb(k, docs) => {
                for (id, ts) in docs {
                    self.m.insert((*k, *id), (*ts, None));
                }
            },
            Op::Purge(k, ids) => {
                for id in ids {
                    self.m.remove(&(*k, *id));
                }
            },
            Op::Reopen => {},
        }
    }
    /// remove_tombstones is allowed by the contract only on tombstones / absent ids
    fn allowed(&self, op: &Op) -> bool {
        match op {
            Op::Purge(k, ids) => {
                let mut sim = self.clone();
                for id in ids {
                    if matches!(sim.m.get(&(*k, *id)), Some((_, Some(_)))) {
                        return false;
                    }
                    sim.m.remove(&(*k, *id));
                }
                true
            },
            _ => true,
        }
    }
    fn sections(&self, universe: &[u64]) -> Sections {
        let mut s = Sections::default();
        let mut nonempty = BTreeSet::new();
        for ((k, _), _) in &self.m {
            nonempty.insert(*k);
        }
        s.k = join(nonempty.iter().map(|k| format!("{k:x}")).collect());
        for ks in 0..NKS {
            let rows: Vec<String> = self
                .m
                .range((ks, 0)..=(ks, u64::MAX))
                .map(|((_, id), (ts, d))| format!("{id:x}:{ts:x}:{}", if d.is_none() { 1 } else { 0 }))
                .collect();
            s.m[ks] = join(rows);
            let mut g = Vec::new();
            for id in dedup_keep_order(universe) {
                match self.m.get(&(ks, id)) {
                    Some((ts, Some(p))) => g.push(format!("{id:x}:{ts:x}:{p}")),
                    _ => g.push(format!("{id:x}:-")),
                }
            }
            s.g[ks] = join(g);
            let want: BTreeSet<u64> = universe.iter().copied().collect();
            let q: Vec<String> = want
                .iter()
                .filter_map(|id| match self.m.get(&(ks, *id)) {
                    Some((ts, Some(p))) => Some(format!("{id:x}:{ts:x}:{p}")),
                    _ => None,
                })
                .collect();
            s.q[ks] = join(q);
        }
        s
    }
}

fn join(v: Vec<String>) -> String {
    if v.is_empty() {
        "-".into()
    } else {
        v.join(",")
    }
}

fn dedup_keep_order(u: &[u64]) -> Vec<u64> {
    let mut seen = BTreeSet::new();
    u.iter().copied().filter(|x| seen.insert(*x)).collect()
}

/// Canonical text of one full observation.
#[derive(Default, Clone, PartialEq)]
struct Sections {
    k: String,
    m: [String; NKS],
    g: [String; NKS],
    q: [String; NKS],
}

impl Sections {
    fn text(&self, tag: &str) -> String {
        let mut s = format!("{tag} K={}", self.k);
        for ks in 0..NKS {
            s.push_str(&format!(" M{ks}={} G{ks}={} Q{ks}={}", self.m[ks], self.g[ks], self.q[ks]));
        }
        s
    }
}

// ------------------------------------------------------------------ backends

enum Store {
    Mem(MemStore),
    Sql(SqliteStorage),
    Lmdb(LmdbStorage),
}

macro_rules! on {
    ($st:expr, $s:ident => $e:expr) => {
        match $st {
            Store::Mem($s) => $e.map_err(|_| ()),
            Store::Sql($s) => $e.map_err(|_| ()),
            Store::Lmdb($s) => $e.map_err(|_| ()),
        }
    };
}

#[derive(Default)]
struct CloseStats {
    sqlite_close_seen: u64,
    sqlite_close_timeout: u64,
    lmdb_close_seen: u64,
    lmdb_close_timeout: u64,
}

async fn open_store(backend: &str, dir: &Path) -> Result<Store, String> {
    match backend {
        "mem" => Ok(Store::Mem(MemStore::default())),
        "sqlm" => SqliteStorage::open_in_memory().await.map(Store::Sql).map_err(|e| e.to_string()),
        "sqlf" => SqliteStorage::open(dir.join("data.db")).await.map(Store::Sql).map_err(|e| e.to_string()),
        _ => LmdbStorage::open(dir.join("lmdb")).await.map(Store::Lmdb).map_err(|e| e.to_string()),
    }
}

/// Really closes the database: drops the handle and waits until the background
/// thread has closed the connection / environment.
fn close_store(st: Store, dir: &Path, cs: &mut CloseStats) {
    match st {
        Store::Mem(_) => {},
        Store::Sql(s) => {
            let shm = dir.join("data.db-shm");
            let wal = dir.join("data.db-wal");
            let file = dir.join("data.db").exists();
            drop(s);
            if file {
                // SQLite removes the -wal/-shm files when the last connection closes
                let t0 = Instant::now();
                while (shm.exists() || wal.exists()) && t0.elapsed() < Duration::from_secs(3) {
                    std::thread::sleep(Duration::from_micros(200));
                }
                if shm.exists() || wal.exists() {
                    cs.sqlite_close_timeout += 1;
                } else {
                    cs.sqlite_close_seen += 1;
                }
            }
        },
        Store::Lmdb(s) => {
            // heed keeps one environment per path and process (datacake-lmdb itself never
            // closes it); `prepare_for_closing` lets us wait for the real mdb_env_close before
            // opening the path again.  The close is OUR doing, so we have to do it safely: the
            // backend's task thread holds a clone of the environment and a thread-local LMDB
            // reader slot; if the last clone were dropped here while that thread is still
            // exiting, mdb_env_close would unmap the lock file under the thread-exit destructor
            // of the reader slot (seen once as SIGSEGV in mdb_env_reader_dest, under load).  So
            // we keep a clone until the task thread is gone and only then drop the last one.
            let env = s.handle().env().clone();
            let ev = env.clone().prepare_for_closing();
            let threads = || std::fs::read_dir("/proc/self/task").map(|d| d.count()).unwrap_or(0);
            let before = threads();
            drop(s);
            let t0 = Instant::now();
            while threads() >= before && t0.elapsed() < Duration::from_secs(5) {
                std::thread::sleep(Duration::from_micros(100));
            }
            drop(env);
            if ev.wait_timeout(Duration::from_secs(5)) {
                cs.lmdb_close_seen += 1;
            } else {
                cs.lmdb_close_timeout += 1;
            }
        },
    }
}

async fn apply(st: &Store, op: &Op) -> Result<(), ()> {
    let ts = HLCTimestamp::from_u64;
    match op {
        Op::Put(k, id, t, p) => {
            let doc = Document::new(*id, ts(*t), payload_bytes(p));
            // `put_with_ctx(.., None)` is the entry point the keyspace actor uses; odd ids take it
            if *id % 2 == 1 {
                on!(st, s => s.put_with_ctx(KS_NAMES[*k], doc, None).await)
            } else {
                on!(st, s => s.put(KS_NAMES[*k], doc).await)
            }
        },
        Op::MultiPut(k, docs) => {
            let docs: Vec<Document> =
                docs.iter().map(|(id, t, p)| Document::new(*id, ts(*t), payload_bytes(p))).collect();
            if docs.len() % 2 == 1 {
                on!(st, s => s.multi_put_with_ctx(KS_NAMES[*k], docs.into_iter(), None).await)
            } else {
                on!(st, s => s.multi_put(KS_NAMES[*k], docs.into_iter()).await)
            }
        },
        Op::Tomb(k, id, t) => on!(st, s => s.mark_as_tombstone(KS_NAMES[*k], *id, ts(*t)).await),
        Op::MultiTomb(k, docs) => {
            let docs: Vec<DocumentMetadata> = docs.iter().map(|(id, t)| DocumentMetadata::new(*id, ts(*t))).collect();
            on!(st, s => s.mark_many_as_tombstone(KS_NAMES[*k], docs.into_iter()).await)
        },
        Op::Purge(k, ids) => on!(st, s => s.remove_tombstones(KS_NAMES[*k], ids.clone().into_iter()).await),
        Op::Reopen => Ok(()),
    }
}

struct Observed {
    sec: Sections,
    raw_list: Result<Vec<String>, ()>,
    mget_in_request_order: bool,
    problems: Vec<(&'static str, String)>,
}

fn fnv(b: &[u8]) -> u64 {
    let mut h = 0xcbf2_9ce4_8422_2325u64;
    for x in b {
        h = (h ^ *x as u64).wrapping_mul(0x100_0000_01b3);
    }
    h
}

fn pay_token(table: &HashMap<Vec<u8>, String>, data: &[u8]) -> String {
    match table.get(data) {
        Some(t) => t.clone(),
        None => format!("?{}x{:x}", data.len(), fnv(data)),
    }
}

/// `touch_first`: `None` = the keyspace list is read before any keyspace is named; `Some(k)` =
/// keyspace k alone is read first (the observable result must not depend on which keyspaces a
/// handle has already touched - caches are filled lazily, e.g. after a reopen).
async fn observe(st: &Store, universe: &[u64], table: &HashMap<Vec<u8>, String>, touch_first: Option<usize>) -> Observed {
    let mut o = Observed {
        sec: Sections::default(),
        raw_list: Err(()),
        mget_in_request_order: true,
        problems: Vec::new(),
    };
    if let Some(k) = touch_first {
        let _: Result<usize, ()> = on!(st, s => s.iter_metadata(KS_NAMES[k % NKS]).await.map(|it| it.count()));
    }
    o.raw_list = on!(st, s => s.get_keyspace_list().await);
    let mut metas: Vec<Result<Vec<(u64, u64, bool)>, ()>> = Vec::new();
    for ks in 0..NKS {
        let name = KS_NAMES[ks];
        let meta: Result<Vec<(u64, u64, bool)>, ()> = on!(st, s => s
            .iter_metadata(name)
            .await
            .map(|it| it.map(|(id, ts, t)| (id, ts.as_u64(), t)).collect::<Vec<_>>()));
        o.sec.m[ks] = match &meta {
            Err(()) => "err".into(),
            Ok(rows) => {
                let mut rows = rows.clone();
                rows.sort();
                let mut ids: Vec<u64> = rows.iter().map(|r| r.0).collect();
                ids.dedup();
                if ids.len() != rows.len() {
                    o.problems.push(("metadata-duplicate-id", format!("ks{ks}")));
                }
                join(rows.iter().map(|(id, ts, t)| format!("{id:x}:{ts:x}:{}", *t as u8)).collect())
            },
        };
        metas.push(meta);
        let mut g = Vec::new();
        for id in dedup_keep_order(universe) {
            let r: Result<Option<Document>, ()> = on!(st, s => s.get(name, id).await);
            g.push(match r {
                Err(()) => format!("{id:x}:err"),
                Ok(None) => format!("{id:x}:-"),
                Ok(Some(d)) => {
                    let p = pay_token(table, d.data());
                    if d.id() == id {
                        format!("{id:x}:{:x}:{p}", d.last_updated().as_u64())
                    } else {
                        format!("{id:x}:wrongid{:x}:{:x}:{p}", d.id(), d.last_updated().as_u64())
                    }
                },
            });
        }
        o.sec.g[ks] = join(g);
        let req: Vec<u64> = universe.to_vec();
        let r: Result<Vec<Document>, ()> =
            on!(st, s => s.multi_get(name, req.clone().into_iter()).await.map(|it| it.collect::<Vec<_>>()));
        o.sec.q[ks] = match r {
            Err(()) => "err".into(),
            Ok(docs) => {
                // informational: is the answer in request order (with the request's multiplicity)?
                let ids: Vec<u64> = docs.iter().map(|d| d.id()).collect();
                let live: BTreeSet<u64> = ids.iter().copied().collect();
                let expect: Vec<u64> = req.iter().copied().filter(|i| live.contains(i)).collect();
                if ids != expect {
                    o.mget_in_request_order = false;
                }
                let set: BTreeSet<(u64, u64, String)> = docs
                    .iter()
                    .map(|d| (d.id(), d.last_updated().as_u64(), pay_token(table, d.data())))
                    .collect();
                join(set.iter().map(|(id, ts, p)| format!("{id:x}:{ts:x}:{p}")).collect())
            },
        };
    }
    // keyspace list, canonicalised modulo keyspaces without entries: keep the listed
    // keyspaces whose own metadata is non-empty
    o.sec.k = match &o.raw_list {
        Err(()) => "err".into(),
        Ok(list) => {
            let mut out = BTreeSet::new();
            let mut seen = BTreeSet::new();
            for name in list {
                if !seen.insert(name.clone()) {
                    o.problems.push(("keyspace-list-duplicate", name.clone()));
                }
                match KS_NAMES.iter().position(|n| n == name) {
                    None => {
                        o.problems.push(("keyspace-list-unknown-name", name.clone()));
                        out.insert(format!("?{}", hex_bytes(name.as_bytes())));
                    },
                    Some(ks) => {
                        if matches!(&metas[ks], Ok(rows) if !rows.is_empty()) {
                            out.insert(format!("{ks:x}"));
                        }
                    },
                }
            }
            join(out.into_iter().collect())
        },
    };
    o
}

// ------------------------------------------------------------------ running a case

#[derive(Default)]
struct RunState {
    steps: Vec<String>,
    /// (class, number of ops of the case to keep, detail)
    fails: Vec<(String, usize, String)>,
    counters: BTreeMap<String, u64>,
    close: CloseStats,
    noncanonical: bool,
}

impl RunState {
    fn fail(&mut self, backend: &str, class: &str, nops: usize, detail: String) {
        // a case that stores a word whose fraction byte exceeds 249 (no clock produces one)
        // is outside the stamps C17 quantifies over; SQLite keeps the Display text of a stamp
        // and cannot return such a word unchanged: named class, not mixed with the others
        let class = if self.noncanonical && backend.starts_with("sql") {
            format!("{backend}-noncanonical-stamp")
        } else {
            format!("{backend}-{class}")
        };
        if !self.fails.iter().any(|f| f.0 == class) {
            self.fails.push((class, nops, detail));
        }
    }
    fn hit(&mut self, k: &str) {
        *self.counters.entry(k.to_string()).or_insert(0) += 1;
    }
}

fn compare(
    rs: &mut RunState,
    backend: &str,
    nops: usize,
    want: &Sections,
    got: &Observed,
    prev: Option<&Sections>,
    op: Option<&Op>,
) {
    if want.k != got.sec.k {
        rs.fail(backend, "keyspace-list", nops, format!("want K={} got K={} raw={:?}", want.k, got.sec.k, got.raw_list));
    }
    for ks in 0..NKS {
        if want.m[ks] != got.sec.m[ks] {
            rs.fail(backend, "metadata", nops, format!("ks{ks} want {} got {}", want.m[ks], got.sec.m[ks]));
        }
        if want.g[ks] != got.sec.g[ks] {
            rs.fail(backend, "get", nops, format!("ks{ks} want {} got {}", want.g[ks], got.sec.g[ks]));
        }
        if want.q[ks] != got.sec.q[ks] {
            rs.fail(backend, "multi_get", nops, format!("ks{ks} want {} got {}", want.q[ks], got.sec.q[ks]));
        }
    }
    for (c, d) in &got.problems {
        rs.fail(backend, c, nops, d.clone());
    }
    // implementation-only clauses: frame rule and reopen, against the backend's own
    // previous observation
    if let (Some(prev), Some(op)) = (prev, op) {
        for ks in 0..NKS {
            if op.ks() == Some(ks) {
                continue;
            }
            if prev.m[ks] != got.sec.m[ks] || prev.g[ks] != got.sec.g[ks] || prev.q[ks] != got.sec.q[ks] {
                let class = if matches!(op, Op::Reopen) { "reopen-changed-observation" } else { "frame" };
                rs.fail(backend, class, nops, format!("ks{ks} before M={} G={} after M={} G={}", prev.m[ks], prev.g[ks], got.sec.m[ks], got.sec.g[ks]));
            }
        }
        if matches!(op, Op::Reopen) && prev.k != got.sec.k {
            rs.fail(backend, "reopen-changed-observation", nops, format!("K before {} after {}", prev.k, got.sec.k));
        }
    }
}

async fn run_case(case: Case, dir: PathBuf, state: Arc<Mutex<RunState>>) {
    let b = case.backend.clone();
    let table = case.payload_table();
    let persistent = b == "sqlf" || b == "lmdb";
    let mut reference = Reference::default();
    let mut st = match open_store(&b, &dir).await {
        Ok(s) => s,
        Err(e) => {
            let mut rs = state.lock().unwrap();
            rs.steps.push("open-failed".into());
            rs.fail(&b, "open-failed", 0, e);
            return;
        },
    };
    // a fresh database lists no keyspace at all
    let fresh: Result<Vec<String>, ()> = on!(&st, s => s.get_keyspace_list().await);
    if fresh != Ok(Vec::new()) {
        state.lock().unwrap().fail(&b, "fresh-store-lists-keyspaces", 0, format!("{fresh:?}"));
    }
    let obs = observe(&st, &case.universe, &table, None).await;
    let mut prev = obs.sec.clone();
    {
        let mut rs = state.lock().unwrap();
        rs.steps.push(obs.sec.text("init"));
        compare(&mut rs, &b, 0, &reference.sections(&case.universe), &obs, None, None);
    }
    for (i, op) in case.ops.iter().enumerate() {
        let nops = i + 1;
        if !reference.allowed(op) {
            // not a call the contract allows: the case is malformed, stop here
            state.lock().unwrap().steps.push("na".into());
            return;
        }
        // mark the step as started so that a panic is attributed to it
        state.lock().unwrap().steps.push("panic".to_string());
        let res = if matches!(op, Op::Reopen) {
            if persistent {
                let mut cs = CloseStats::default();
                close_store(st, &dir, &mut cs);
                {
                    let mut rs = state.lock().unwrap();
                    rs.close.sqlite_close_seen += cs.sqlite_close_seen;
                    rs.close.sqlite_close_timeout += cs.sqlite_close_timeout;
                    rs.close.lmdb_close_seen += cs.lmdb_close_seen;
                    rs.close.lmdb_close_timeout += cs.lmdb_close_timeout;
                }
                match open_store(&b, &dir).await {
                    Ok(s) => {
                        st = s;
                        Ok(())
                    },
                    Err(e) => {
                        let mut rs = state.lock().unwrap();
                        rs.steps.pop();
                        rs.steps.push("reopen-failed".into());
                        rs.fail(&b, "reopen-failed", nops, e);
                        return;
                    },
                }
            } else {
                Ok(())
            }
        } else {
            apply(&st, op).await
        };
        reference.apply(op);
        // which keyspace (if any) is touched before the keyspace list is read: rotates with the
        // position in the case, so that every op kind (a reopen in particular) is followed by each
        let touch_first = match (i + case.ops.len()) % (NKS + 1) {
            0 => None,
            k => Some(k - 1),
        };
        let obs = observe(&st, &case.universe, &table, touch_first).await;
        let mut rs = state.lock().unwrap();
        rs.steps.pop();
        let tag = if res.is_ok() { "ok" } else { "err" };
        rs.steps.push(obs.sec.text(tag));
        if res.is_err() {
            rs.fail(&b, "call-error", nops, op.show());
        }
        compare(&mut rs, &b, nops, &reference.sections(&case.universe), &obs, Some(&prev), Some(op));
        if !obs.mget_in_request_order {
            rs.hit("multi_get_not_in_request_order");
        }
        if let Ok(list) = &obs.raw_list {
            let listed_empty = list
                .iter()
                .filter(|n| KS_NAMES.iter().position(|x| x == *n).map(|k| obs.sec.m[k] == "-").unwrap_or(false))
                .count();
            if listed_empty > 0 {
                rs.hit(&format!("{b}_lists_keyspace_without_entries"));
            }
        }
        prev = obs.sec.clone();
    }
    if persistent {
        let mut cs = CloseStats::default();
        close_store(st, &dir, &mut cs);
    }
}

// ------------------------------------------------------------------ generators

fn stamp(sec: u64, ms: u32, cnt: u16, node: u8) -> u64 {
    HLCTimestamp::new(Duration::new(sec, ms * 1_000_000), cnt, node).as_u64()
}

fn random_stamp(r: &mut Rng) -> u64 {
    let sec = match r.below(6) {
        0 => 0,
        1 => 1,
        2 => 1 << 31,
        3 => (1u64 << 32) - 1,
        4 => (1u64 << 32) - 2,
        _ => r.below(1 << 32),
    };
    let ms = match r.below(4) {
        0 => 0,
        1 => 996 + r.below(4) as u32, // fraction 249
        2 => 4,
        _ => r.below(1000) as u32,
    };
    let cnt = match r.below(4) {
        0 => 0,
        1 => 65535,
        2 => 1,
        _ => r.below(65536) as u16,
    };
    let node = match r.below(4) {
        0 => 0,
        1 => 255,
        _ => r.below(256) as u8,
    };
    stamp(sec, ms, cnt, node)
}

fn random_id(r: &mut Rng, extra: &[u64]) -> u64 {
    if !extra.is_empty() && r.chance(1, 8) {
        *r.pick(extra)
    } else {
        *r.pick(&BOUNDARY_IDS)
    }
}

fn random_payload(r: &mut Rng, thorough: bool, big_left: &mut u32) -> String {
    match r.below(10) {
        0 | 1 | 2 => "e".into(),
        3 | 4 => format!("b{:02x}", [0u64, 0xff, 0x27, r.below(256)][r.below(4) as usize]),
        5 | 6 => {
            let n = 2 + r.below(14) as usize;
            let bytes: Vec<u8> = (0..n).map(|_| r.below(256) as u8).collect();
            format!("s{}", hex_bytes(&bytes))
        },
        7 | 8 => format!("k{:x}", r.below(4)),
        _ => {
            if thorough && *big_left > 0 {
                *big_left -= 1;
                format!("m{:x}", r.below(3))
            } else {
                format!("k{:x}", r.below(4))
            }
        },
    }
}

/// One random allowed call sequence.  `tomb_first`: keyspace 2 is first touched by a tombstone.
fn random_ops(r: &mut Rng, thorough: bool, stats: &mut hxcommon::Stats) -> (Vec<u64>, Vec<Op>) {
    random_ops_with(r, thorough, stats, false)
}

/// `words`: stamps are arbitrary u64 words (`HLCTimestamp::from_u64`), half of them with a
/// fraction byte above 249 — not stamps any clock produces; optional stream `noncanonical=N`.
fn random_ops_with(r: &mut Rng, thorough: bool, stats: &mut hxcommon::Stats, words: bool) -> (Vec<u64>, Vec<Op>) {
    let random_stamp = |r: &mut Rng| -> u64 {
        if !words {
            return random_stamp(r);
        }
        let w = r.next();
        if r.chance(1, 2) {
            (w & !(0xffu64 << 24)) | ((250 + r.below(6)) << 24)
        } else {
            w
        }
    };
    let len = 3 + r.below(if thorough { 22 } else { 12 }) as usize;
    let extra: Vec<u64> = (0..2).map(|_| r.next()).collect();
    let tomb_first = r.chance(1, 2);
    let mut touched2 = false;
    let mut reference = Reference::default();
    let mut big_left = 3u32; // keeps every case far below LMDB's 10 MiB map
    let mut ops = Vec::new();
    while ops.len() < len {
        let mut ks = r.below(NKS as u64) as usize;
        if ks == 2 && !tomb_first && !touched2 && r.chance(1, 2) {
            ks = 0;
        }
        let first_touch_tomb = ks == 2 && tomb_first && !touched2;
        let kind = if first_touch_tomb { 3 + r.below(2) } else { r.below(11) };
        let op = match kind {
            0 | 1 | 2 => Op::Put(ks, random_id(r, &extra), random_stamp(r), random_payload(r, thorough, &mut big_left)),
            3 => Op::Tomb(ks, random_id(r, &extra), random_stamp(r)),
            4 => {
                let n = if first_touch_tomb { 1 + r.below(3) } else { r.below(4) };
                Op::MultiTomb(ks, (0..n).map(|_| (random_id(r, &extra), random_stamp(r))).collect())
            },
            5 | 6 => {
                let n = r.below(5);
                Op::MultiPut(
                    ks,
                    (0..n)
                        .map(|_| (random_id(r, &extra), random_stamp(r), random_payload(r, thorough, &mut big_left)))
                        .collect(),
                )
            },
            7 | 8 => {
                // purge: tombstones and absent ids of this keyspace (what the contract allows)
                let mut cand: Vec<u64> = BOUNDARY_IDS
                    .iter()
                    .chain(extra.iter())
                    .copied()
                    .filter(|id| !matches!(reference.m.get(&(ks, *id)), Some((_, Some(_)))))
                    .collect();
                r.shuffle(&mut cand);
                cand.truncate(r.below(4) as usize);
                if r.chance(1, 6) && !cand.is_empty() {
                    let d = cand[0];
                    cand.push(d); // the same id twice in one request
                }
                Op::Purge(ks, cand)
            },
            9 => Op::Reopen,
            _ => Op::Tomb(ks, random_id(r, &extra), random_stamp(r)),
        };
        if !reference.allowed(&op) {
            continue;
        }
        if op.ks() == Some(2) {
            touched2 = true;
        }
        stats.hit(match &op {
            Op::Put(..) => "op_put",
            Op::MultiPut(..) => "op_multi_put",
            Op::Tomb(..) => "op_tombstone",
            Op::MultiTomb(..) => "op_multi_tombstone",
            Op::Purge(..) => "op_remove_tombstones",
            Op::Reopen => "op_reopen",
        });
        if first_touch_tomb {
            stats.hit("keyspace_first_touched_by_tombstone");
        }
        reference.apply(&op);
        ops.push(op);
    }
    // the multi_get request: the boundary ids, the case's extra ids, shuffled, one of them twice
    let mut universe: Vec<u64> = BOUNDARY_IDS.iter().chain(extra.iter()).copied().collect();
    r.shuffle(&mut universe);
    let d = universe[r.below(universe.len() as u64) as usize];
    universe.push(d);
    (universe, ops)
}

/// Bounded-exhaustive: every allowed sequence of length <= `maxlen` over the alphabet
/// { put, tombstone, remove_tombstones on one id; bulk put / tombstone / remove on both ids;
///   reopen } x keyspaces {0, 2} x ids {0, 2^63}.
fn exhaustive_sequences(maxlen: usize) -> Vec<Vec<Op>> {
    let ids = [0u64, 1 << 63];
    let kss = [0usize, 2];
    // stamps by position: high, low, middle (the store must not order by stamp)
    let stamps = [stamp((1 << 32) - 1, 996, 65535, 255), stamp(0, 0, 0, 0), stamp(1, 500, 1, 7), stamp(2, 0, 0, 1)];
    let pays = ["e", "b00", "k1", "s00ff27"];
    let alphabet = |pos: usize| -> Vec<Op> {
        let t = stamps[pos % stamps.len()];
        let p = pays[pos % pays.len()].to_string();
        let mut v = Vec::new();
        for ks in kss {
            for id in ids {
                v.push(Op::Put(ks, id, t, p.clone()));
                v.push(Op::Tomb(ks, id, t));
                v.push(Op::Purge(ks, vec![id]));
            }
            v.push(Op::MultiPut(ks, vec![(ids[0], t, p.clone()), (ids[1], t, "e".into())]));
            v.push(Op::MultiTomb(ks, vec![(ids[1], t), (ids[0], t)]));
            v.push(Op::Purge(ks, vec![ids[0], ids[1]]));
        }
        v.push(Op::Reopen);
        v
    };
    let mut out: Vec<Vec<Op>> = Vec::new();
    let mut frontier: Vec<(Vec<Op>, Reference)> = vec![(Vec::new(), Reference::default())];
    for pos in 0..maxlen {
        let mut next = Vec::new();
        for (seq, rf) in &frontier {
            for op in alphabet(pos) {
                if !rf.allowed(&op) {
                    continue;
                }
                // a leading reopen of an empty store and two reopens in a row add nothing
                if matches!(op, Op::Reopen) && matches!(seq.last(), None | Some(Op::Reopen)) {
                    continue;
                }
                let mut s2 = seq.clone();
                s2.push(op.clone());
                let mut r2 = rf.clone();
                r2.apply(&op);
                out.push(s2.clone());
                next.push((s2, r2));
            }
        }
        frontier = next;
    }
    out
}

// ------------------------------------------------------------------ main

fn main() {
    let args = Args::parse();
    quiet_panics();
    let mut w = CaseWriter::new(&args.dir, "store");
    let scratch = match args.extra.get("scratch") {
        Some(p) => PathBuf::from(p),
        None => args
            .dir
            .parent()
            .unwrap_or(Path::new("."))
            .join(format!("scratch-{}", std::process::id())),
    };
    let _ = std::fs::remove_dir_all(&scratch);
    std::fs::create_dir_all(&scratch).unwrap();

    // ---- the cases
    let mut cases: Vec<Case> = Vec::new();
    let mut bad_lines: Vec<String> = Vec::new();
    let mut n_exhaustive = 0u64;
    if let Some(path) = &args.replay {
        for line in std::fs::read_to_string(path).unwrap().lines() {
            if line.trim().is_empty() {
                continue;
            }
            match Case::parse(line) {
                Some(c) => cases.push(c),
                None => bad_lines.push(line.to_string()),
            }
        }
    } else {
        let mut rng = Rng::new(args.seed);
        let maxlen = args.get_u64("exhaustive_len", if args.thorough() { 3 } else { 2 }) as usize;
        let seqs = exhaustive_sequences(maxlen);
        let universe = vec![1u64 << 63, 0, 7, 0];
        for ops in &seqs {
            let has_reopen = ops.iter().any(|o| matches!(o, Op::Reopen));
            for b in BACKENDS {
                if has_reopen && (b == "mem" || b == "sqlm") {
                    continue; // reopen is only meaningful for the persistent backends
                }
                cases.push(Case { backend: b.to_string(), universe: universe.clone(), ops: ops.clone() });
                n_exhaustive += 1;
            }
        }
        w.stats.add("exhaustive_sequences", seqs.len() as u64);
        // length-3 sequences sampled in the quick tier (all of them run in the thorough tier)
        if !args.thorough() {
            let mut seqs3: Vec<Vec<Op>> = exhaustive_sequences(3).into_iter().filter(|s| s.len() == 3).collect();
            rng.shuffle(&mut seqs3);
            let n3 = args.get_u64("sample_len3", 150) as usize;
            for ops in seqs3.into_iter().take(n3) {
                let has_reopen = ops.iter().any(|o| matches!(o, Op::Reopen));
                for b in BACKENDS {
                    if has_reopen && (b == "mem" || b == "sqlm") {
                        continue;
                    }
                    cases.push(Case { backend: b.to_string(), universe: universe.clone(), ops: ops.clone() });
                }
                w.stats.hit("sampled_len3_sequences");
            }
        }
        let nrandom = args.get_u64("random", if args.thorough() { 2500 } else { 250 });
        for _ in 0..nrandom {
            let (universe, ops) = random_ops(&mut rng, args.thorough(), &mut w.stats);
            for b in BACKENDS {
                cases.push(Case { backend: b.to_string(), universe: universe.clone(), ops: ops.clone() });
            }
            w.stats.hit("random_sequences");
        }
        // optional (off by default): arbitrary words as stamps, see `noncanonical_stamp`
        for _ in 0..args.get_u64("noncanonical", 0) {
            let (universe, ops) = random_ops_with(&mut rng, false, &mut w.stats, true);
            for b in BACKENDS {
                cases.push(Case { backend: b.to_string(), universe: universe.clone(), ops: ops.clone() });
            }
            w.stats.hit("noncanonical_stamp_sequences");
        }
    }

    // ---- run them
    let rt = tokio::runtime::Builder::new_current_thread().enable_all().build().unwrap();
    let local = tokio::task::LocalSet::new();
    let mut close_total = CloseStats::default();
    for line in &bad_lines {
        w.case(line, "?bad-case");
        w.fail("bad-case-line", line, "cannot parse");
    }
    let t0 = Instant::now();
    for (n, case) in cases.iter().enumerate() {
        let dir = scratch.join(format!("c{n}"));
        std::fs::create_dir_all(&dir).unwrap();
        let state = Arc::new(Mutex::new(RunState { noncanonical: case.has_noncanonical_stamp(), ..RunState::default() }));
        let fut = run_case(case.clone(), dir.clone(), state.clone());
        let joined = local.block_on(&rt, async move { tokio::task::spawn_local(fut).await });
        let mut rs = match state.lock() {
            Ok(g) => g,
            Err(p) => p.into_inner(),
        };
        if let Err(e) = joined {
            let nops = rs.steps.len().saturating_sub(1);
            let what = if e.is_panic() { "panic" } else { "cancelled" };
            let last = rs_last(&rs.steps);
            rs.fail(&case.backend, what, nops, last);
            w.stats.hit("case_panicked");
        }
        let line = case.show();
        if rs.noncanonical && case.backend.starts_with("sql") {
            // known class (see RunState::fail): evaluated by the oracle only; the line is kept
            // out of the model comparison so that the class suppresses nothing else
            w.stats.hit("sqlite_noncanonical_stamp_cases_oracle_only");
        } else {
            w.case(&line, &rs.steps.join(" | "));
        }
        for (class, nops, detail) in &rs.fails {
            w.fail(class, &case.show_prefix(*nops), detail);
        }
        for (k, v) in &rs.counters {
            w.stats.add(k, *v);
        }
        w.stats.hit(&format!("cases_{}", case.backend));
        for op in &case.ops {
            let (pays, ids): (Vec<&String>, Vec<u64>) = match op {
                Op::Put(_, id, _, p) => (vec![p], vec![*id]),
                Op::MultiPut(_, docs) => (docs.iter().map(|d| &d.2).collect(), docs.iter().map(|d| d.0).collect()),
                Op::Tomb(_, id, _) => (vec![], vec![*id]),
                Op::MultiTomb(_, docs) => (vec![], docs.iter().map(|d| d.0).collect()),
                Op::Purge(_, ids) => (vec![], ids.clone()),
                Op::Reopen => (vec![], vec![]),
            };
            for p in pays {
                w.stats.hit(match p.as_bytes()[0] {
                    b'e' => "payload_empty",
                    b'b' => "payload_1_byte",
                    b's' => "payload_2_to_15_bytes",
                    b'k' => "payload_4KiB",
                    _ => "payload_1MiB",
                });
            }
            for id in ids {
                w.stats.hit(if id >= 1 << 63 { "id_at_or_above_2^63" } else { "id_below_2^63" });
            }
        }
        w.stats.add("steps", case.ops.len() as u64);
        close_total.sqlite_close_seen += rs.close.sqlite_close_seen;
        close_total.sqlite_close_timeout += rs.close.sqlite_close_timeout;
        close_total.lmdb_close_seen += rs.close.lmdb_close_seen;
        close_total.lmdb_close_timeout += rs.close.lmdb_close_timeout;
        drop(rs);
        let _ = std::fs::remove_dir_all(&dir);
    }
    drop(local);
    drop(rt);
    let _ = std::fs::remove_dir_all(&scratch);
    w.stats.add("reopen_sqlite_file_closed_and_reopened", close_total.sqlite_close_seen);
    w.stats.add("reopen_sqlite_close_not_observed", close_total.sqlite_close_timeout);
    w.stats.add("reopen_lmdb_env_closed_and_reopened", close_total.lmdb_close_seen);
    w.stats.add("reopen_lmdb_close_not_observed", close_total.lmdb_close_timeout);
    let ms = t0.elapsed().as_millis();
    w.finish(&[("exhaustive_cases", n_exhaustive.to_string()), ("run_ms", ms.to_string())]);
}

fn rs_last(steps: &[String]) -> String {
    steps.last().cloned().unwrap_or_default()
}
