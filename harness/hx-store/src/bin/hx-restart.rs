//! hx-restart: C07 on the bundled persistent backends.
//!
//! One case = a request history against the real `KeyspaceGroup`/`KeyspaceActor` on a real
//! SQLite file or LMDB directory, with restarts: the group is dropped, the database is
//! really closed, opened again from the same path, and a fresh group loads its state from it
//! (`load_states_from_storage`).  Same token language and the same model component as
//! hx-actor (every storage call is expected to succeed here):
//!   <backend> act probes=<..> s:<src>:<k>:<t>:<p>:k  d:<src>:<k>:<t>:k  S:<src>:k:<k.t.p,..>
//!             D:<src>:k:<k.t,..>  P:k  R
//! After every token: reply, the set as a peer would fetch it, the store's metadata and
//! documents.  Oracle: after every token the set's view equals the store's metadata (C02 on
//! a real backend); after every restart additionally the rebuilt set equals the set before the
//! stop (every acknowledged mutation is still visible).

use std::path::{Path, PathBuf};
use std::sync::Arc;
use std::time::{Duration, Instant};

use datacake_eventual_consistency::verif::*;
use datacake_eventual_consistency::Storage;
use datacake_lmdb::LmdbStorage;
use datacake_node::Clock;
use datacake_sqlite::SqliteStorage;
use hx_ec::*;
use hxcommon::{quiet_panics, Args, CaseWriter, Rng};

const W_TICKS: u64 = 3600 * 250;

fn mk(tick: u64, cnt: u64, node: u64) -> u64 {
    ((tick / 250) << 32) | ((tick % 250) << 24) | (cnt << 8) | node
}
fn hx(s: &str) -> u64 {
    u64::from_str_radix(s, 16).unwrap()
}

async fn send_token<S: Storage>(group: &KeyspaceGroup<S>, tok: &str) -> String {
    send_token_to(group, KS, tok).await
}

async fn send_token_to<S: Storage>(group: &KeyspaceGroup<S>, name: &str, tok: &str) -> String {
    let p: Vec<&str> = tok.split(':').collect();
    let ks = group.get_or_create_keyspace(name).await;
    let ok = |r: bool| if r { "ok".to_string() } else { "err".to_string() };
    match p.as_slice() {
        ["s", src, k, t, pl, _] => {
            ok(ks.send(msg_set::<S>(src.parse().unwrap(), mk_doc(hx(k), hx(t), hx(pl)))).await.is_ok())
        },
        ["d", src, k, t, _] => ok(ks.send(msg_del::<S>(src.parse().unwrap(), mk_meta(hx(k), hx(t)))).await.is_ok()),
        ["S", src, _, items] => {
            let ds = items
                .split(',')
                .filter(|s| !s.is_empty())
                .map(|it| {
                    let f: Vec<&str> = it.split('.').collect();
                    mk_doc(hx(f[0]), hx(f[1]), hx(f[2]))
                })
                .collect();
            ok(ks.send(msg_multi_set::<S>(src.parse().unwrap(), ds)).await.is_ok())
        },
        ["D", src, _, items] => {
            let ms = items
                .split(',')
                .filter(|s| !s.is_empty())
                .map(|it| {
                    let f: Vec<&str> = it.split('.').collect();
                    mk_meta(hx(f[0]), hx(f[1]))
                })
                .collect();
            ok(ks.send(msg_multi_del::<S>(src.parse().unwrap(), ms)).await.is_ok())
        },
        ["P", _] => ok(ks.send(msg_purge::<S>()).await.is_ok()),
        _ => "?tok".into(),
    }
}

/// Metadata and live documents of the keyspace, read once (retried on a read error), and their
/// dump in the format of `hx_ec::show_store`.
async fn read_store<S: Storage>(st: &S) -> Result<(Vec<(u64, u64, bool)>, String), String> {
    read_store_of(st, KS).await
}

async fn read_store_of<S: Storage>(st: &S, name: &str) -> Result<(Vec<(u64, u64, bool)>, String), String> {
    let mut last = String::new();
    for attempt in 0..5 {
        if attempt > 0 {
            tokio::time::sleep(Duration::from_millis(5)).await;
        }
        let mut meta: Vec<(u64, u64, bool)> = match st.iter_metadata(name).await {
            Ok(it) => it.map(|(k, t, d)| (k, t.as_u64(), d)).collect(),
            Err(e) => {
                last = format!("iter_metadata: {e:?}");
                continue;
            },
        };
        meta.sort();
        let mut docs = Vec::new();
        let mut failed = false;
        for (k, _, dead) in &meta {
            match st.get(name, *k).await {
                Ok(Some(d)) => docs.push(format!("{:x}={:x}.{:x}", k, d.last_updated().as_u64(), payload_of(&d))),
                Ok(None) => {
                    if !*dead {
                        docs.push(format!("{:x}=missing", k));
                    }
                },
                Err(e) => {
                    last = format!("get({:x}): {e:?}", k);
                    failed = true;
                    break;
                },
            }
        }
        if failed {
            continue;
        }
        let m: Vec<String> = meta.iter().map(|(k, t, d)| format!("{:x}={:x}.{}", k, t, *d as u8)).collect();
        return Ok((meta, format!("M[{}]G[{}]", m.join(","), docs.join(","))));
    }
    Err(last)
}

/// What the set shows against what the store's metadata says, id by id.
fn agree(set: &Set2, meta: &[(u64, u64, bool)]) -> Option<String> {
    let (e, d) = set_contents(set);
    let mut view: Vec<(u64, u64, bool)> =
        e.iter().map(|(k, t)| (*k, *t, false)).chain(d.iter().map(|(k, t)| (*k, *t, true))).collect();
    view.sort();
    let mut m = meta.to_vec();
    m.sort();
    if view == m {
        None
    } else {
        Some(format!("set shows {:x?}, storage holds {:x?}", view, m))
    }
}

fn wait_unique<S>(mut a: Arc<S>) -> Option<S> {
    let t0 = Instant::now();
    loop {
        match Arc::try_unwrap(a) {
            Ok(s) => return Some(s),
            Err(back) => a = back,
        }
        if t0.elapsed() > Duration::from_secs(5) {
            return None;
        }
        std::thread::sleep(Duration::from_millis(1));
    }
}

trait Backend: Storage + Sized + Send + Sync + 'static {
    const NAME: &'static str;
    async fn open_at(dir: &Path) -> Result<Self, String>;
    /// Really closes the database (waits for the background thread).
    fn close(self, dir: &Path) -> bool;
}

impl Backend for SqliteStorage {
    const NAME: &'static str = "sqlf";
    async fn open_at(dir: &Path) -> Result<Self, String> {
        SqliteStorage::open(dir.join("data.db")).await.map_err(|e| e.to_string())
    }
    fn close(self, dir: &Path) -> bool {
        let shm = dir.join("data.db-shm");
        let wal = dir.join("data.db-wal");
        drop(self);
        let t0 = Instant::now();
        while (shm.exists() || wal.exists()) && t0.elapsed() < Duration::from_secs(3) {
            std::thread::sleep(Duration::from_micros(200));
        }
        !(shm.exists() || wal.exists())
    }
}

impl Backend for LmdbStorage {
    const NAME: &'static str = "lmdb";
    async fn open_at(dir: &Path) -> Result<Self, String> {
        LmdbStorage::open(dir.join("lmdb")).await.map_err(|e| e.to_string())
    }
    fn close(self, _dir: &Path) -> bool {
        // the close is the executor's doing (datacake-lmdb never closes its environment): keep a
        // clone until the backend's task thread - which owns a thread-local LMDB reader slot - has
        // exited, and only then drop the last one (see hx-store.rs)
        let env = self.handle().env().clone();
        let ev = env.clone().prepare_for_closing();
        let threads = || std::fs::read_dir("/proc/self/task").map(|d| d.count()).unwrap_or(0);
        let before = threads();
        drop(self);
        let t0 = Instant::now();
        while threads() >= before && t0.elapsed() < Duration::from_secs(5) {
            std::thread::sleep(Duration::from_micros(100));
        }
        drop(env);
        ev.wait_timeout(Duration::from_secs(5))
    }
}

async fn new_group<S: Backend>(store: &Arc<S>) -> Result<KeyspaceGroup<S>, String> {
    let group = KeyspaceGroup::new(store.clone(), Clock::new(0)).await;
    group.load_states_from_storage().await.map_err(|e| format!("{e:?}"))?;
    Ok(group)
}

/// One incarnation of the node = one tokio runtime: stopping the node drops the runtime and
/// with it every task of the group (actors, the purge task), which releases the store.
fn new_rt() -> tokio::runtime::Runtime {
    tokio::runtime::Builder::new_current_thread().enable_all().build().unwrap()
}

fn run_case<S: Backend>(w: &mut CaseWriter, root: &Path, n: u64, probes: &[u64], toks: &[String]) {
    let pv: Vec<String> = probes.iter().map(|t| format!("{:x}", t)).collect();
    let case = format!("{} act probes={} {}", S::NAME, pv.join(","), toks.join(" "));
    let dir: PathBuf = root.join(format!("{}-{}", S::NAME, n));
    let _ = std::fs::remove_dir_all(&dir);
    std::fs::create_dir_all(&dir).unwrap();
    let mut out: Vec<String> = Vec::new();
    let mut fails: Vec<(String, String)> = Vec::new();
    let mut before: Option<Set2> = None;
    let mut i = 0usize;
    let mut first = true;
    // every loop iteration is one incarnation: open, load, run tokens up to the next R
    'life: loop {
        let rt = new_rt();
        let store = match rt.block_on(S::open_at(&dir)) {
            Ok(s) => Arc::new(s),
            Err(e) => {
                out.push("?open-failed".into());
                w.case(&case, &out.join(" | "));
                w.fail(if first { "backend-does-not-open" } else { "backend-does-not-reopen" }, &case, &e);
                return;
            },
        };
        let stop = rt.block_on(async {
            let group = match new_group(&store).await {
                Ok(g) => g,
                Err(e) => {
                    out.push("?load-failed".into());
                    fails.push(("load-states-fails".into(), e));
                    return true;
                },
            };
            let mut restarted = !first;
            loop {
                let reply;
                if restarted {
                    reply = "restart".to_string();
                    w.stats.hit("restarts");
                } else {
                    if i >= toks.len() {
                        return true;
                    }
                    let tok = &toks[i];
                    if tok == "R" {
                        let mut b = actor_set(&group, KS).await;
                        let _ = b.purge_old_deletes();
                        before = Some(b);
                        i += 1;
                        return false;
                    }
                    reply = send_token(&group, tok).await;
                    w.stats.hit(&format!("reply_{}", reply));
                    if reply != "ok" {
                        fails.push(("request-fails-on-a-healthy-backend".into(), format!("token {} ({})", i, tok)));
                    }
                    i += 1;
                }
                let set = actor_set(&group, KS).await;
                // ONE read of the store feeds both the dump and the oracle; a read error is retried and,
                // if it persists, reported as such (never silently taken for an empty store)
                let (meta, st) = match read_store(&*store).await {
                    Ok(x) => x,
                    Err(e) => {
                        fails.push(("storage-read-fails".into(), format!("after token {}: {}", i, e)));
                        (Vec::new(), "M?G?".to_string())
                    },
                };
                // Dumps and oracle are taken modulo purgeable tombstones: on this real-time runtime the
                // node's own purge task fires about a millisecond after every start, at a point of the
                // history nobody controls (purging is invisible to every other observation: C08).
                let keep = |t: u64| set.will_apply(PROBE_KEY, datacake_crdt::HLCTimestamp::from_u64(t));
                let meta: Vec<(u64, u64, bool)> = meta.into_iter().filter(|(_, t, dead)| !*dead || keep(*t)).collect();
                let st = if st == "M?G?" {
                    st
                } else {
                    let m: Vec<String> = meta.iter().map(|(k, t, d)| format!("{:x}={:x}.{}", k, t, *d as u8)).collect();
                    format!("M[{}]{}", m.join(","), &st[st.find("]G[").map(|i| i + 1).unwrap_or(st.len())..])
                };
                let mut set = set;
                let _ = set.purge_old_deletes();
                out.push(format!("{} {} {}", reply, show_set(&set, probes), st));
                if let Some(detail) = agree(&set, &meta) {
                    let class = if restarted { "rebuilt-set-differs-from-storage" } else { "set-and-storage-disagree" };
                    fails.push((class.to_string(), format!("after token {}: {}", i, detail)));
                }
                if restarted {
                    if let Some(b) = before.take() {
                        if set_contents(&b) != set_contents(&set) {
                            fails.push((
                                "acknowledged-mutation-lost-by-restart".to_string(),
                                format!("after token {}: before {:x?}, after {:x?}", i, set_contents(&b), set_contents(&set)),
                            ));
                        }
                    }
                }
                if st.contains("=missing") {
                    fails.push(("live-metadata-without-document".to_string(), format!("after token {}: {}", i, st)));
                }
                restarted = false;
            }
        });
        first = false;
        // stop the node: every task of this incarnation goes away with its runtime
        drop(rt);
        match wait_unique(store) {
            Some(s) => {
                if !s.close(&dir) {
                    w.stats.hit("close_not_observed");
                }
            },
            None => {
                out.push("?store-still-in-use".into());
                fails.push(("stopped-node-keeps-the-store".into(), "the storage handle is still shared 5 s after the node's runtime was dropped".into()));
                break 'life;
            },
        }
        if stop {
            break;
        }
    }
    w.case(&case, &out.join(" | "));
    let mut seen = std::collections::BTreeSet::new();
    for (class, detail) in fails {
        if seen.insert(class.clone()) {
            w.fail(&class, &case, &detail);
        }
    }
    let _ = std::fs::remove_dir_all(&dir);
}

/// The names of the multi-keyspace cases (`mks`): index 0 is the keyspace of the `act` cases.
const NAMES: [&str; 3] = [KS, "k2", "zz-late"];

/// One observation of one keyspace, modulo purgeable tombstones (see `run_case`): the dump, and
/// what the oracle has to say about it.
async fn observe<S: Backend>(
    group: &KeyspaceGroup<S>,
    store: &S,
    name: &str,
    probes: &[u64],
    fails: &mut Vec<(String, String)>,
    at: &str,
    restarted: bool,
) -> (String, Set2) {
    let set = actor_set(group, name).await;
    let (meta, st) = match read_store_of(store, name).await {
        Ok(x) => x,
        Err(e) => {
            fails.push(("storage-read-fails".into(), format!("{at}: {e}")));
            (Vec::new(), "M?G?".to_string())
        },
    };
    let keep = |t: u64| set.will_apply(PROBE_KEY, datacake_crdt::HLCTimestamp::from_u64(t));
    let meta: Vec<(u64, u64, bool)> = meta.into_iter().filter(|(_, t, dead)| !*dead || keep(*t)).collect();
    let st = if st == "M?G?" {
        st
    } else {
        let m: Vec<String> = meta.iter().map(|(k, t, d)| format!("{:x}={:x}.{}", k, t, *d as u8)).collect();
        format!("M[{}]{}", m.join(","), &st[st.find("]G[").map(|i| i + 1).unwrap_or(st.len())..])
    };
    let mut set = set;
    let _ = set.purge_old_deletes();
    if let Some(detail) = agree(&set, &meta) {
        let class = if restarted { "rebuilt-set-differs-from-storage" } else { "set-and-storage-disagree" };
        fails.push((class.to_string(), format!("{at}, keyspace {name}: {detail}")));
    }
    if st.contains("=missing") {
        fails.push(("live-metadata-without-document".to_string(), format!("{at}, keyspace {name}: {st}")));
    }
    (format!("{} {}", show_set(&set, probes), st), set)
}

/// `mks`: the same token language, every request addressed to one of three keyspaces
/// (`<i>/<token>`); after a request the addressed keyspace is observed, after a restart ALL
/// three are (`restart <ks0> ; restart <ks1> ; restart <ks2>`): the node has to rebuild every
/// keyspace storage lists, each from its own rows, and an unused name stays empty.
fn run_mks<S: Backend>(w: &mut CaseWriter, root: &Path, n: u64, probes: &[u64], toks: &[String]) {
    let pv: Vec<String> = probes.iter().map(|t| format!("{:x}", t)).collect();
    let case = format!("{} mks probes={} {}", S::NAME, pv.join(","), toks.join(" "));
    let dir: PathBuf = root.join(format!("{}-m{}", S::NAME, n));
    let _ = std::fs::remove_dir_all(&dir);
    std::fs::create_dir_all(&dir).unwrap();
    let mut out: Vec<String> = Vec::new();
    let mut fails: Vec<(String, String)> = Vec::new();
    let mut before: Vec<Set2> = Vec::new();
    let mut i = 0usize;
    let mut first = true;
    'life: loop {
        let rt = new_rt();
        let store = match rt.block_on(S::open_at(&dir)) {
            Ok(s) => Arc::new(s),
            Err(e) => {
                out.push("?open-failed".into());
                w.case(&case, &out.join(" | "));
                w.fail(if first { "backend-does-not-open" } else { "backend-does-not-reopen" }, &case, &e);
                return;
            },
        };
        let stop = rt.block_on(async {
            let group = match new_group(&store).await {
                Ok(g) => g,
                Err(e) => {
                    out.push("?load-failed".into());
                    fails.push(("load-states-fails".into(), e));
                    return true;
                },
            };
            if !first {
                w.stats.hit("restarts_with_several_keyspaces");
                let mut parts = Vec::new();
                for (j, name) in NAMES.iter().enumerate() {
                    let at = format!("after restart before token {}", i);
                    let (dump, set) = observe(&group, &*store, name, probes, &mut fails, &at, true).await;
                    if let Some(b) = before.get(j) {
                        if set_contents(b) != set_contents(&set) {
                            fails.push((
                                "acknowledged-mutation-lost-by-restart".to_string(),
                                format!("{at}, keyspace {name}: before {:x?}, after {:x?}", set_contents(b), set_contents(&set)),
                            ));
                        }
                    }
                    parts.push(format!("restart {}", dump));
                }
                out.push(parts.join(" ; "));
            }
            loop {
                if i >= toks.len() {
                    return true;
                }
                let tok = &toks[i];
                if tok == "R" {
                    before.clear();
                    for name in NAMES {
                        let mut b = actor_set(&group, name).await;
                        let _ = b.purge_old_deletes();
                        before.push(b);
                    }
                    i += 1;
                    return false;
                }
                let (j, inner) = match tok.split_once('/') {
                    Some((j, inner)) => (j.parse::<usize>().unwrap_or(0) % NAMES.len(), inner),
                    None => (0, tok.as_str()),
                };
                let reply = send_token_to(&group, NAMES[j], inner).await;
                if reply != "ok" {
                    fails.push(("request-fails-on-a-healthy-backend".into(), format!("token {} ({})", i, tok)));
                }
                i += 1;
                let at = format!("after token {}", i);
                let (dump, _) = observe(&group, &*store, NAMES[j], probes, &mut fails, &at, false).await;
                out.push(format!("{} {}", reply, dump));
            }
        });
        first = false;
        drop(rt);
        match wait_unique(store) {
            Some(s) => {
                if !s.close(&dir) {
                    w.stats.hit("close_not_observed");
                }
            },
            None => {
                out.push("?store-still-in-use".into());
                fails.push(("stopped-node-keeps-the-store".into(), "the storage handle is still shared 5 s after the node's runtime was dropped".into()));
                break 'life;
            },
        }
        if stop {
            break;
        }
    }
    w.case(&case, &out.join(" | "));
    let mut seen = std::collections::BTreeSet::new();
    for (class, detail) in fails {
        if seen.insert(class.clone()) {
            w.fail(&class, &case, &detail);
        }
    }
    let _ = std::fs::remove_dir_all(&dir);
}

/// A history over a few ids: puts, deletes of live / absent / already deleted ids, bulk
/// requests, stale operations, restarts anywhere.
fn random_history(rng: &mut Rng, base: u64, len: u64) -> Vec<String> {
    let mut toks = Vec::new();
    let mut tick = base;
    for i in 0..len {
        tick += rng.below(3);
        let k = 1 + rng.below(5);
        let node = 1 + rng.below(3);
        let src = rng.below(2);
        // mostly fresh stamps, sometimes an older one (refused or accepted by the rule)
        let t = if rng.chance(1, 6) { mk(tick.saturating_sub(1 + rng.below(4)), rng.below(3), node) } else { mk(tick, i % 7, node) };
        match rng.below(10) {
            0..=2 => toks.push(format!("s:{}:{:x}:{:x}:{:x}:k", src, k, t, 0x100 + i)),
            3..=5 => toks.push(format!("d:{}:{:x}:{:x}:k", src, k, t)),
            6 => {
                // half of the bulks carry ONE stamp for all their (different) ids, as put_many does
                let shared = rng.chance(1, 2);
                let items: Vec<String> = (0..1 + rng.below(3))
                    .map(|j| {
                        if shared {
                            format!("{:x}.{:x}.{:x}", 1 + j, mk(tick, 8, node), 0x200 + i)
                        } else {
                            format!("{:x}.{:x}.{:x}", 1 + rng.below(5), mk(tick, 8 + j, node), 0x200 + i)
                        }
                    })
                    .collect();
                toks.push(format!("S:{}:k:{}", src, items.join(",")));
            },
            7 => {
                let shared = rng.chance(1, 2);
                let items: Vec<String> = (0..1 + rng.below(3))
                    .map(|j| if shared { format!("{:x}.{:x}", 1 + j, mk(tick, 12, node)) } else { format!("{:x}.{:x}", 1 + rng.below(6), mk(tick, 12 + j, node)) })
                    .collect();
                toks.push(format!("D:{}:k:{}", src, items.join(",")));
            },
            8 => toks.push("P:k".into()),
            _ => toks.push("R".into()),
        }
        if rng.chance(1, 5) {
            toks.push("R".into());
        }
    }
    toks.push("R".into());
    toks
}

fn both(w: &mut CaseWriter, root: &Path, n: &mut u64, probes: &[u64], toks: &[String]) {
    run_case::<SqliteStorage>(w, root, *n, probes, toks);
    run_case::<LmdbStorage>(w, root, *n, probes, toks);
    *n += 1;
}

fn main() {
    quiet_panics();
    let args = Args::parse();
    let mut w = CaseWriter::new(&args.dir, "restart");
    let root = args.dir.join("restart-db");
    std::fs::create_dir_all(&root).unwrap();
    let mut n = 0u64;
    {
        if let Some(path) = &args.replay {
            for line in std::fs::read_to_string(path).unwrap().lines() {
                let t: Vec<&str> = line.split_whitespace().collect();
                if t.len() < 3 || (t[1] != "act" && t[1] != "mks") {
                    continue;
                }
                let probes: Vec<u64> = t[2].trim_start_matches("probes=").split(',').filter(|s| !s.is_empty()).map(hx).collect();
                let toks: Vec<String> = t[3..].iter().map(|s| s.to_string()).collect();
                match (t[0], t[1]) {
                    ("sqlf", "act") => run_case::<SqliteStorage>(&mut w, &root, n, &probes, &toks),
                    (_, "act") => run_case::<LmdbStorage>(&mut w, &root, n, &probes, &toks),
                    ("sqlf", _) => run_mks::<SqliteStorage>(&mut w, &root, n, &probes, &toks),
                    _ => run_mks::<LmdbStorage>(&mut w, &root, n, &probes, &toks),
                }
                n += 1;
            }
            let _ = std::fs::remove_dir_all(&root);
            w.finish(&[]);
            return;
        }
        let mut rng = Rng::new(args.seed);
        let base = 96_000_000u64;
        let probes = vec![mk(base, 0, 1), mk(base + W_TICKS, 0, 1), mk(base + 3 * W_TICKS, 0, 1)];
        let t = |d: u64, c: u64, node: u64| mk(base + d, c, node);
        // fixed shapes: every single request then a restart, on an empty and on a non-empty store
        let singles = vec![
            format!("s:0:1:{:x}:11:k", t(10, 0, 1)),
            format!("d:0:1:{:x}:k", t(10, 0, 1)),
            format!("d:1:2:{:x}:k", t(11, 0, 2)),
            format!("S:0:k:1.{:x}.21,2.{:x}.22", t(12, 0, 1), t(12, 1, 1)),
            format!("D:1:k:1.{:x},3.{:x}", t(13, 0, 2), t(13, 1, 2)),
        ];
        for a in &singles {
            both(&mut w, &root, &mut n, &probes, &[a.clone(), "R".into()]);
            for b in &singles {
                both(&mut w, &root, &mut n, &probes, &[a.clone(), "R".into(), b.clone(), "R".into()]);
                both(&mut w, &root, &mut n, &probes, &[a.clone(), b.clone(), "R".into()]);
            }
        }
        // delete before put, delete of an unknown id, newer delete on a tombstone, put over a tombstone
        let shapes: Vec<Vec<String>> = vec![
            vec![format!("d:0:1:{:x}:k", t(20, 0, 1)), "R".into(), format!("s:0:1:{:x}:31:k", t(15, 0, 2)), "R".into()],
            vec![format!("d:0:7:{:x}:k", t(20, 0, 1)), "R".into()],
            vec![format!("s:0:1:{:x}:31:k", t(5, 0, 1)), format!("d:0:1:{:x}:k", t(20, 0, 1)), format!("d:1:1:{:x}:k", t(25, 0, 2)), "R".into()],
            vec![format!("d:0:1:{:x}:k", t(20, 0, 1)), format!("s:1:1:{:x}:32:k", t(30, 0, 2)), "R".into(), format!("d:0:1:{:x}:k", t(35, 0, 1)), "R".into()],
            // tombstones older than the cut-off, purge, restart: the purged delete stays rejected
            vec![format!("d:0:1:{:x}:k", t(1, 0, 1)), format!("s:0:2:{:x}:41:k", t(2 * W_TICKS, 0, 1)),
                 format!("s:1:2:{:x}:42:k", t(2 * W_TICKS + 1, 0, 1)), "P:k".into(), "R".into(),
                 format!("s:0:1:{:x}:43:k", t(0, 5, 1)), "R".into()],
        ];
        // bulks whose ids share one stamp (put_many / del_many), then restarts
        let shapes2: Vec<Vec<String>> = vec![
            vec![format!("S:0:k:1.{t0:x}.51,2.{t0:x}.52,3.{t0:x}.53,4.{t0:x}.54", t0 = t(40, 0, 1)), "R".into(),
                 format!("D:0:k:2.{t1:x},3.{t1:x}", t1 = t(41, 0, 2)), "R".into()],
        ];
        for s in &shapes2 {
            both(&mut w, &root, &mut n, &probes, s);
        }
        for s in &shapes {
            both(&mut w, &root, &mut n, &probes, s);
        }
        // histories across a second count that gains a decimal digit (999_999 s -> 1_000_000 s; the
        // SQLite backend stores a stamp as its Display text): overwrite, delete and re-put across it
        let edge = 1_000_000u64 * 250;
        let e = |d: i64, c: u64, node: u64| mk((edge as i64 + d) as u64, c, node);
        let probes_edge = vec![e(-500, 0, 1), e(W_TICKS as i64, 0, 1), e(3 * W_TICKS as i64, 0, 1)];
        let shapes3: Vec<Vec<String>> = vec![
            vec![format!("s:0:1:{:x}:61:k", e(-250, 0, 1)), format!("s:0:1:{:x}:62:k", e(0, 0, 1)), "R".into(),
                 format!("d:1:1:{:x}:k", e(250, 0, 2)), "R".into()],
            vec![format!("s:0:1:{:x}:61:k", e(-1, 0, 1)), format!("d:0:1:{:x}:k", e(1, 0, 1)), "R".into(),
                 format!("s:1:1:{:x}:63:k", e(2, 0, 2)), "R".into()],
            vec![format!("S:0:k:1.{a:x}.64,2.{a:x}.65", a = e(-3, 0, 1)), "R".into(),
                 format!("S:0:k:1.{b:x}.66,2.{b:x}.67", b = e(3, 0, 1)), "R".into(),
                 format!("D:1:k:1.{c:x},2.{c:x}", c = e(4, 0, 2)), "R".into()],
        ];
        for s in &shapes3 {
            both(&mut w, &root, &mut n, &probes_edge, s);
        }
        let count = if args.thorough() { 6000 } else { 600 };
        for i in 0..count {
            let len = 3 + rng.below(12);
            // every fourth random history starts a few ticks before that edge
            if i % 4 == 3 {
                let h = random_history(&mut rng, edge - 6, len);
                both(&mut w, &root, &mut n, &probes_edge, &h);
            } else {
                let h = random_history(&mut rng, base + 100, len);
                both(&mut w, &root, &mut n, &probes, &h);
            }
        }
    }
    // several keyspaces on one store: fixed shapes (a keyspace holding only tombstones, a keyspace
    // first used after a restart, the same id in two keyspaces), then random histories whose
    // requests are spread over the three names
    {
        let mut rng = Rng::new(args.seed ^ 0x6b73);
        let base = 96_000_000u64;
        let probes = vec![mk(base, 0, 1), mk(base + W_TICKS, 0, 1), mk(base + 3 * W_TICKS, 0, 1)];
        let t = |d: u64, c: u64, node: u64| mk(base + d, c, node);
        let shapes: Vec<Vec<String>> = vec![
            vec![format!("0/s:0:1:{:x}:71:k", t(10, 0, 1)), format!("1/s:0:1:{:x}:72:k", t(11, 0, 1)), "R".into(),
                 format!("1/d:0:1:{:x}:k", t(12, 0, 2)), "R".into(), format!("2/s:1:5:{:x}:73:k", t(13, 0, 1)), "R".into()],
            vec![format!("1/d:0:4:{:x}:k", t(10, 0, 1)), "R".into(), format!("0/s:0:4:{:x}:74:k", t(5, 0, 1)), "R".into()],
            vec![format!("2/S:0:k:1.{a:x}.75,2.{a:x}.76", a = t(20, 0, 1)), format!("0/D:1:k:1.{b:x},2.{b:x}", b = t(21, 0, 2)),
                 format!("1/S:1:k:2.{c:x}.77", c = t(22, 0, 3)), "R".into(), "R".into()],
        ];
        for s in &shapes {
            run_mks::<SqliteStorage>(&mut w, &root, n, &probes, s);
            run_mks::<LmdbStorage>(&mut w, &root, n, &probes, s);
            n += 1;
        }
        let count = if args.thorough() { 2000 } else { 200 };
        for _ in 0..count {
            let len = 3 + rng.below(12);
            let h: Vec<String> = random_history(&mut rng, base + 100, len)
                .into_iter()
                .map(|tok| if tok == "R" { tok } else { format!("{}/{}", rng.below(3), tok) })
                .collect();
            run_mks::<SqliteStorage>(&mut w, &root, n, &probes, &h);
            run_mks::<LmdbStorage>(&mut w, &root, n, &probes, &h);
            n += 1;
        }
    }
    let _ = std::fs::remove_dir_all(&root);
    w.finish(&[]);
}
