// shared helpers of the hx-store executors
