//! hx-keyspace: implementation executor for C18 (one state per keyspace under
//! concurrent first use).
//!
//! A case is `sched <k> <p1> ... <pn>` (hex): `k` tasks each own one future of the
//! real `KeyspaceGroup::get_or_create_keyspace("ks")` (a fresh group over `MemStore`,
//! clock `datacake_node::Clock::new(0)`), and `p1 ... pn` is the order in which the
//! tasks are polled BY HAND on a current-thread tokio runtime:
//!
//! * task still inside `get_or_create_keyspace`: its future is polled exactly once
//!   with a flag waker; then the executor yields to the runtime until the flag is
//!   raised (so the clock actor / spawned keyspace actors run *between* polls, never
//!   another caller);
//! * task holds a mailbox but has not mutated yet: it sends one `Set` (document id =
//!   task index, stamp from the node clock) to *the mailbox it obtained* and waits
//!   for the acknowledgement;
//! * task already acknowledged: nothing (counted as `noop_poll`).
//!
//! After the scheduled polls every task is driven to completion in index order
//! (three more polls each; the model appends the same suffix).
//!
//! Mapping to the Coq model (`coq/keyspace/Keyspace.v`, `poll_gen`): one real poll
//! from the start runs the read-locked lookup and, on a miss, posts the request to
//! the clock actor and suspends (= transition `Lookup -> AfterClock`, or
//! `Lookup -> Done m` on a hit); the next poll resumes after `clock.get_time()`,
//! and because `spawn_keyspace(..).await` never suspends it runs the spawn and both
//! write-lock sections and returns (= `AfterClock -> Spawned -> Inserted -> Done`
//! or `AfterClock -> Spawned -> Done existing`); the `Set` round trip is the
//! model's mutation step `Done -> Acked`.
//!
//! Observables (public API only): per task the number of polls
//! `get_or_create_keyspace` needed; per task the live ids of the `Serialize`d set
//! behind its mailbox; the live ids behind the mailbox a fresh lookup returns; and
//! whether the change timestamp published by `get_keyspace_info()` is the one of
//! the actor behind that mailbox (`LastUpdated`).
//!
//! Oracle (independent of the model): every acknowledged mutation is in the set a
//! later lookup returns; every task's mailbox reaches that same set; the published
//! timestamp belongs to the live instance.

use std::future::Future;
use std::marker::PhantomData;
use std::pin::Pin;
use std::sync::atomic::{AtomicBool, Ordering};
use std::sync::Arc;
use std::task::{Context, Poll, Wake, Waker};

use datacake_crdt::OrSWotSet;
use datacake_eventual_consistency::test_utils::MemStore;
use datacake_eventual_consistency::verif::{
    KeyspaceGroup,
    LastUpdated,
    Serialize,
    Set,
    CONSISTENCY_SOURCE_ID,
    NUM_SOURCES,
};
use datacake_eventual_consistency::Document;
use datacake_node::Clock;
use hxcommon::{no_panic, quiet_panics, Args, CaseWriter, Rng};

const KEYSPACE: &str = "ks";

struct Flag(AtomicBool);

impl Wake for Flag {
    fn wake(self: Arc<Self>) {
        self.0.store(true, Ordering::SeqCst);
    }
    fn wake_by_ref(self: &Arc<Self>) {
        self.0.store(true, Ordering::SeqCst);
    }
}

/// Lets the background actors run: yields until `flag` is raised (bounded), then a
/// few more times so that whatever the wake-up unblocked has settled.
async fn settle(flag: Option<&Flag>) {
    if let Some(f) = flag {
        for _ in 0..200 {
            if f.0.load(Ordering::SeqCst) {
                break;
            }
            tokio::task::yield_now().await;
        }
    }
    for _ in 0..4 {
        tokio::task::yield_now().await;
    }
}

#[derive(Default, Debug, Clone, PartialEq)]
struct Outcome {
    polls: Vec<u32>,
    sets: Vec<Vec<u64>>,
    fin: Vec<u64>,
    ts_ok: bool,
    acked: Vec<bool>,
    noop_polls: u32,
}

fn live_ids(bytes: &[u8]) -> Vec<u64> {
    let mut aligned = rkyv::AlignedVec::with_capacity(bytes.len());
    aligned.extend_from_slice(bytes);
    let set: OrSWotSet<NUM_SOURCES> =
        rkyv::from_bytes(&aligned).expect("Serialize reply must be a valid OrSWotSet");
    let (changed, _removed) = OrSWotSet::<NUM_SOURCES>::default().diff(&set);
    let mut ids: Vec<u64> = changed.into_iter().map(|(k, _)| k).collect();
    ids.sort_unstable();
    ids
}

fn finish_polls(k: usize) -> Vec<usize> {
    (0..k).flat_map(|i| [i, i, i]).collect()
}

fn run_case(k: usize, sched: &[usize]) -> Outcome {
    let rt = tokio::runtime::Builder::new_current_thread()
        .enable_all()
        .build()
        .unwrap();
    let out = rt.block_on(async move {
        let clock = Clock::new(0);
        let group = KeyspaceGroup::new(Arc::new(MemStore::default()), clock.clone()).await;
        settle(None).await;

        let mut futs = Vec::new();
        for _ in 0..k {
            let g = group.clone();
            futs.push(Some(Box::pin(async move {
                g.get_or_create_keyspace(KEYSPACE).await
            })));
        }
        let mut mailboxes = Vec::new();
        for _ in 0..k {
            mailboxes.push(None);
        }
        let mut out = Outcome {
            polls: vec![0; k],
            acked: vec![false; k],
            ..Default::default()
        };

        let all: Vec<usize> = sched.iter().copied().chain(finish_polls(k)).collect();
        for (pos, &i) in all.iter().enumerate() {
            let scheduled = pos < sched.len();
            if i >= k {
                out.noop_polls += scheduled as u32;
                continue;
            }
            if let Some(fut) = futs[i].as_mut() {
                // one poll of get_or_create_keyspace
                let flag = Arc::new(Flag(AtomicBool::new(false)));
                let waker = Waker::from(flag.clone());
                let mut cx = Context::from_waker(&waker);
                out.polls[i] += 1;
                let fut: Pin<&mut _> = fut.as_mut();
                match Future::poll(fut, &mut cx) {
                    Poll::Ready(mb) => {
                        futs[i] = None;
                        mailboxes[i] = Some(mb);
                        settle(None).await;
                    },
                    Poll::Pending => settle(Some(&flag)).await,
                }
            } else if !out.acked[i] {
                // the task's one mutation, to the mailbox it obtained
                let mb = mailboxes[i].as_ref().unwrap();
                let ts = clock.get_time().await;
                let doc = Document::new(i as u64, ts, vec![i as u8]);
                let res = mb
                    .send(Set {
                        source: CONSISTENCY_SOURCE_ID,
                        doc,
                        ctx: None,
                        _marker: PhantomData::<MemStore>,
                    })
                    .await;
                out.acked[i] = res.is_ok();
                if res.is_err() {
                    // never retried: a refused mutation is reported by the oracle
                    out.acked[i] = false;
                    futs[i] = None;
                }
                settle(None).await;
                if res.is_err() {
                    break;
                }
            } else {
                out.noop_polls += scheduled as u32;
            }
        }

        for i in 0..k {
            let ids = match mailboxes[i].as_ref() {
                Some(mb) => {
                    let bytes = mb.send(Serialize).await.expect("serialize");
                    live_ids(&bytes)
                },
                None => Vec::new(),
            };
            out.sets.push(ids);
        }
        let later = group.get_or_create_keyspace(KEYSPACE).await;
        let bytes = later.send(Serialize).await.expect("serialize");
        out.fin = live_ids(&bytes);
        let last_updated = later.send(LastUpdated).await;
        let info = group.get_keyspace_info().await;
        out.ts_ok = info.keyspace_timestamps.get(KEYSPACE) == Some(&last_updated);
        out
    });
    drop(rt);
    out
}

/// Oracle-only leg on a multi-threaded runtime: `k` tasks are *spawned* (the tokio
/// scheduler, not the executor, chooses the interleaving, including between the two
/// write-lock sections), each does get_or_create + one `Set`; afterwards the same
/// observables are read.  Returns the number of rounds in which the property failed
/// and a description of the first failure.
fn run_stress(k: usize, rounds: usize) -> (usize, String) {
    let rt = tokio::runtime::Builder::new_multi_thread()
        .worker_threads(8)
        .enable_all()
        .build()
        .unwrap();
    let mut bad = 0usize;
    let mut first = String::new();
    for round in 0..rounds {
        let (sets, fin, ts_ok, acked) = rt.block_on(async move {
            let clock = Clock::new(0);
            let group =
                KeyspaceGroup::new(Arc::new(MemStore::default()), clock.clone()).await;
            let mut handles = Vec::new();
            // odd rounds release all first users together (the window between a creator's
            // last check and its insert is about a microsecond wide); even rounds let them
            // start as they are spawned
            let gate = Arc::new(tokio::sync::Barrier::new(if round % 2 == 1 { k } else { 1 }));
            for i in 0..k {
                let g = group.clone();
                let c = clock.clone();
                let gate = gate.clone();
                handles.push(tokio::spawn(async move {
                    gate.wait().await;
                    let mb = g.get_or_create_keyspace(KEYSPACE).await;
                    let ts = c.get_time().await;
                    let doc = Document::new(i as u64, ts, vec![i as u8]);
                    let ok = mb
                        .send(Set {
                            source: CONSISTENCY_SOURCE_ID,
                            doc,
                            ctx: None,
                            _marker: PhantomData::<MemStore>,
                        })
                        .await
                        .is_ok();
                    (mb, ok)
                }));
            }
            let mut sets = Vec::new();
            let mut acked = Vec::new();
            // every task first runs to its acknowledgement, only then are the sets read
            let mut mbs = Vec::new();
            for h in handles {
                let (mb, ok) = h.await.expect("task");
                acked.push(ok);
                mbs.push(mb);
            }
            for mb in &mbs {
                let bytes = mb.send(Serialize).await.expect("serialize");
                sets.push(live_ids(&bytes));
            }
            let later = group.get_or_create_keyspace(KEYSPACE).await;
            let bytes = later.send(Serialize).await.expect("serialize");
            let fin = live_ids(&bytes);
            let last_updated = later.send(LastUpdated).await;
            let info = group.get_keyspace_info().await;
            let ts_ok = info.keyspace_timestamps.get(KEYSPACE) == Some(&last_updated);
            (sets, fin, ts_ok, acked)
        });
        let all: Vec<u64> = (0..k as u64).collect();
        let ok = acked.iter().all(|&a| a) && fin == all && sets.iter().all(|s| *s == fin) && ts_ok;
        if !ok {
            bad += 1;
            if first.is_empty() {
                first = format!(
                    "round {round}: sets{} final {} ts {}",
                    sets.iter().map(|s| format!(" {}", show_set(s))).collect::<String>(),
                    show_set(&fin),
                    ts_ok as u8
                );
            }
        }
    }
    (bad, first)
}

/// Oracle-only leg for "for the life of the node": the group's background purge task runs
/// (virtual time is advanced past its period) between two uses of a keyspace, with the
/// store's `remove_tombstones` healthy (`mode` 0), failing for that tick (1) or failing
/// after a partial success (2).  `pre` documents are written (and the odd ones deleted, so
/// that there are tombstones) through a mailbox obtained before the tick, one more through
/// the same mailbox after it, one through a fresh lookup.  Every acknowledged write has to
/// be in the set a later lookup returns, the old mailbox has to reach that same set.
fn run_purge(mode: usize, pre: usize, ticks: usize) -> Result<u64, String> {
    use hx_ec::{Faulty, Plan};
    let rt = tokio::runtime::Builder::new_current_thread()
        .enable_all()
        .start_paused(true)
        .build()
        .unwrap();
    let out = rt.block_on(async move {
        let clock = Clock::new(0);
        let store = Arc::new(Faulty::default());
        let group = KeyspaceGroup::new(store.clone(), clock.clone()).await;
        settle(None).await;
        let old = group.get_or_create_keyspace(KEYSPACE).await;
        let other = group.get_or_create_keyspace("other").await;
        let mut want: Vec<u64> = Vec::new();
        for i in 0..pre as u64 {
            let ts = clock.get_time().await;
            let doc = Document::new(i, ts, vec![i as u8]);
            old.send(hx_ec::msg_set::<Faulty>(CONSISTENCY_SOURCE_ID, doc))
                .await
                .map_err(|e| format!("set {i}: {e:?}"))?;
            if i % 2 == 1 {
                let ts = clock.get_time().await;
                old.send(hx_ec::msg_del::<Faulty>(
                    CONSISTENCY_SOURCE_ID,
                    hx_ec::mk_meta(i, ts.as_u64()),
                ))
                .await
                .map_err(|e| format!("del {i}: {e:?}"))?;
            } else {
                want.push(i);
            }
        }
        let mut reached = 0u64;
        for _ in 0..ticks {
            let before = *store.calls.lock();
            match mode {
                0 => {},
                1 => store.set_fail_all(true),
                _ => store.set_plan(Plan::Partial(vec![true])),
            }
            // the purge task's period (1 h outside the crate's own tests)
            tokio::time::advance(std::time::Duration::from_secs(3601)).await;
            for _ in 0..50 {
                tokio::task::yield_now().await;
            }
            store.set_fail_all(false);
            store.set_plan(Plan::Ok);
            // both keyspaces were asked to purge (the store saw one call each)
            reached += (*store.calls.lock() >= before + 2) as u64;
        }
        // the rest of the in-flight work, through the mailbox obtained before the tick
        let a = 0x100u64;
        let ts = clock.get_time().await;
        old.send(hx_ec::msg_set::<Faulty>(CONSISTENCY_SOURCE_ID, Document::new(a, ts, vec![1])))
            .await
            .map_err(|e| format!("set after tick: {e:?}"))?;
        want.push(a);
        let b = 0x101u64;
        let fresh = group.get_or_create_keyspace(KEYSPACE).await;
        let ts = clock.get_time().await;
        fresh
            .send(hx_ec::msg_set::<Faulty>(CONSISTENCY_SOURCE_ID, Document::new(b, ts, vec![2])))
            .await
            .map_err(|e| format!("set via fresh lookup: {e:?}"))?;
        want.push(b);
        let ts = clock.get_time().await;
        other
            .send(hx_ec::msg_set::<Faulty>(CONSISTENCY_SOURCE_ID, Document::new(7, ts, vec![3])))
            .await
            .map_err(|e| format!("set other: {e:?}"))?;

        let later = group.get_or_create_keyspace(KEYSPACE).await;
        let fin = live_ids(&later.send(Serialize).await.expect("serialize"));
        let via_old = live_ids(&old.send(Serialize).await.expect("serialize"));
        let last_updated = later.send(LastUpdated).await;
        let info = group.get_keyspace_info().await;
        let ts_ok = info.keyspace_timestamps.get(KEYSPACE) == Some(&last_updated);
        let later_other = group.get_or_create_keyspace("other").await;
        let fin_other = live_ids(&later_other.send(Serialize).await.expect("serialize"));
        if fin != want || via_old != fin || !ts_ok || fin_other != vec![7] {
            return Err(format!(
                "acknowledged {} registered set {} set behind the earlier mailbox {} ts {} other {}",
                show_set(&want),
                show_set(&fin),
                show_set(&via_old),
                ts_ok as u8,
                show_set(&fin_other)
            ));
        }
        Ok(reached)
    });
    drop(rt);
    out
}

fn do_purge(w: &mut CaseWriter, mode: usize, pre: usize, ticks: usize) {
    let case = format!("purge {:x} {:x} {:x}", mode, pre, ticks);
    match no_panic(|| run_purge(mode, pre, ticks)) {
        None => {
            w.case(&case, "panic");
            w.fail("panic", &case, "");
        },
        Some(Ok(reached)) => {
            w.case(&case, "all-present");
            w.stats.add("purge_ticks_that_reached_the_store", reached);
        },
        Some(Err(why)) => {
            w.case(&case, "violated");
            w.fail("second-instance-or-lost-acked-mutation-across-a-purge-tick", &case, &why);
        },
    }
    w.stats.hit("purge_tick_cases");
}

fn do_stress(w: &mut CaseWriter, k: usize, rounds: usize) {
    let case = format!("stress {:x} {:x}", k, rounds);
    match no_panic(|| run_stress(k, rounds)) {
        None => {
            w.case(&case, "panic");
            w.fail("panic", &case, "");
        },
        Some((0, _)) => w.case(&case, "all-present"),
        Some((bad, first)) => {
            w.case(&case, &format!("violated {:x}", bad));
            w.fail(
                "multi-thread-runtime-lost-acked-mutation-or-second-instance",
                &case,
                &format!("{bad} of {rounds} rounds, first: {first}"),
            );
        },
    }
    w.stats.add("multi_thread_rounds", rounds as u64);
}

fn show_set(s: &[u64]) -> String {
    if s.is_empty() {
        "-".to_string()
    } else {
        s.iter().map(|x| format!("{:x}", x)).collect::<Vec<_>>().join(",")
    }
}

fn do_case(w: &mut CaseWriter, k: usize, sched: &[usize]) {
    let case = format!(
        "sched {:x}{}",
        k,
        sched.iter().map(|p| format!(" {:x}", p)).collect::<String>()
    );
    let r = no_panic(|| run_case(k, sched));
    let o = match r {
        None => {
            w.case(&case, "panic");
            w.fail("panic", &case, "");
            w.stats.hit("panic");
            return;
        },
        Some(o) => o,
    };
    let line = format!(
        "polls{} sets{} final {} ts {}",
        o.polls.iter().map(|p| format!(" {:x}", p)).collect::<String>(),
        o.sets.iter().map(|s| format!(" {}", show_set(s))).collect::<String>(),
        show_set(&o.fin),
        if o.ts_ok { 1 } else { 0 }
    );
    w.case(&case, &line);

    // ---- the property on the implementation -------------------------------
    let mut missing = Vec::new();
    for i in 0..k {
        if !o.acked[i] {
            w.fail("mutation-not-acknowledged", &case, &format!("task {i}"));
        } else if !o.fin.contains(&(i as u64)) {
            missing.push(i);
        }
    }
    if !missing.is_empty() {
        w.fail(
            "acked-mutation-missing-from-later-lookup",
            &case,
            &format!("acknowledged ids {:?} absent from the set a later lookup returns ({})", missing, line),
        );
    }
    if o.sets.iter().any(|s| *s != o.fin) {
        w.fail(
            "tasks-hold-different-instances",
            &case,
            &format!("some task's mailbox reaches another set than a later lookup ({})", line),
        );
    }
    if !o.ts_ok {
        w.fail(
            "published-timestamp-not-of-live-instance",
            &case,
            "get_keyspace_info() publishes a change counter that is not the live actor's",
        );
    }

    // ---- distribution ---------------------------------------------------------
    w.stats.hit(&format!("k={k}"));
    let missed = o.polls.iter().filter(|&&p| p >= 2).count();
    w.stats.hit(match missed {
        0 | 1 => "single_creator",
        2 => "race_two_creators",
        _ => "race_three_or_more_creators",
    });
    if o.polls.iter().any(|&p| p == 1) {
        w.stats.hit("some_lookup_hit");
    }
    if o.noop_polls > 0 {
        w.stats.hit("scheduled_polls_of_finished_task");
    }
    // was a mutation acknowledged while another creator was still between its polls?
    if missed >= 2 {
        let mut started = vec![0u32; k];
        let mut early_mut = false;
        for &i in sched {
            if i >= k {
                continue;
            }
            started[i] += 1;
            let need = o.polls[i];
            if started[i] == need + 1 {
                // this poll was task i's mutation: is some creator still suspended?
                if (0..k).any(|j| j != i && o.polls[j] >= 2 && started[j] == 1) {
                    early_mut = true;
                }
            }
        }
        if early_mut {
            w.stats.hit("mutation_before_other_creator_resumes");
        }
    }
}

/// All distinct orders of the multiset {0^3, 1^3, ..., (k-1)^3}.
fn multiset_perms(k: usize, f: &mut dyn FnMut(&[usize])) {
    fn rec(rem: &mut Vec<usize>, cur: &mut Vec<usize>, f: &mut dyn FnMut(&[usize])) {
        if rem.iter().all(|&r| r == 0) {
            f(cur);
            return;
        }
        for i in 0..rem.len() {
            if rem[i] > 0 {
                rem[i] -= 1;
                cur.push(i);
                rec(rem, cur, f);
                cur.pop();
                rem[i] += 1;
            }
        }
    }
    rec(&mut vec![3; k], &mut Vec::new(), f);
}

/// All sequences over 0..k of length 0..=len.
fn all_sequences(k: usize, len: usize, f: &mut dyn FnMut(&[usize])) {
    fn rec(k: usize, len: usize, cur: &mut Vec<usize>, f: &mut dyn FnMut(&[usize])) {
        f(cur);
        if cur.len() == len {
            return;
        }
        for i in 0..k {
            cur.push(i);
            rec(k, len, cur, f);
            cur.pop();
        }
    }
    rec(k, len, &mut Vec::new(), f);
}

fn random_sched(rng: &mut Rng, k: usize) -> Vec<usize> {
    let mut s = Vec::new();
    match rng.below(4) {
        0 => {
            // every task misses first (the widest race), then anything
            let mut p: Vec<usize> = (0..k).collect();
            rng.shuffle(&mut p);
            s.extend(p);
        },
        1 => {
            // a random subset misses first
            for i in 0..k {
                if rng.chance(1, 2) {
                    s.push(i);
                }
            }
            rng.shuffle(&mut s);
        },
        _ => {},
    }
    let extra = rng.below(3 * k as u64 + 5) as usize;
    for _ in 0..extra {
        s.push(rng.below(k as u64) as usize);
    }
    s
}

fn main() {
    quiet_panics();
    let args = Args::parse();
    let mut rng = Rng::new(args.seed);
    let mut w = CaseWriter::new(&args.dir, "keyspace");

    if let Some(path) = &args.replay {
        let text = std::fs::read_to_string(path).unwrap();
        for line in text.lines() {
            let t: Vec<&str> = line.split_whitespace().collect();
            if let ["sched", k, rest @ ..] = t.as_slice() {
                let k = usize::from_str_radix(k, 16).unwrap();
                let sched: Vec<usize> =
                    rest.iter().map(|p| usize::from_str_radix(p, 16).unwrap()).collect();
                if k <= 16 {
                    do_case(&mut w, k, &sched);
                }
            } else if let ["purge", m, p, n] = t.as_slice() {
                let m = usize::from_str_radix(m, 16).unwrap();
                let p = usize::from_str_radix(p, 16).unwrap();
                let n = usize::from_str_radix(n, 16).unwrap();
                if m <= 2 && p <= 64 && n <= 8 {
                    do_purge(&mut w, m, p, n);
                }
            } else if let ["stress", k, rounds] = t.as_slice() {
                let k = usize::from_str_radix(k, 16).unwrap();
                let rounds = usize::from_str_radix(rounds, 16).unwrap();
                if (1..=16).contains(&k) && rounds <= 100_000 {
                    do_stress(&mut w, k, rounds);
                }
            }
        }
        w.finish(&[]);
        return;
    }

    // 1. bounded-exhaustive
    let mut exhaustive = 0u64;
    //    k = 1: all poll sequences up to length 4
    all_sequences(1, 4, &mut |s| {
        do_case(&mut w, 1, s);
        exhaustive += 1;
    });
    //    k = 2, 3: every order of the 3k polls the tasks can consume ...
    for k in [2usize, 3] {
        multiset_perms(k, &mut |s| {
            do_case(&mut w, k, s);
            exhaustive += 1;
        });
    }
    //    ... and every poll sequence (incl. truncated schedules and polls of finished tasks)
    //    up to length 7 (k = 2) / 5 (k = 3)
    all_sequences(2, 7, &mut |s| {
        do_case(&mut w, 2, s);
        exhaustive += 1;
    });
    all_sequences(3, 5, &mut |s| {
        do_case(&mut w, 3, s);
        exhaustive += 1;
    });
    //    k = 4: every order of the 12 polls (369 600) in the thorough tier; every 8th of them
    //    (offset by the seed) in the quick tier
    let mut k4 = 0u64;
    let stride = if args.thorough() { 1 } else { 8 };
    let mut idx = args.seed % stride;
    multiset_perms(4, &mut |s| {
        if idx % stride == 0 {
            do_case(&mut w, 4, s);
            k4 += 1;
        }
        idx += 1;
    });

    // 2. random schedules, k up to 4 (and a few wider ones)
    let n_random = if args.thorough() { 200_000 } else { 10_000 };
    for n in 0..n_random {
        let k = if n % 10 == 9 { 5 + rng.below(2) as usize } else { 2 + rng.below(3) as usize };
        let s = random_sched(&mut rng, k);
        do_case(&mut w, k, &s);
    }

    // 3. oracle-only: the background purge task between two uses of a keyspace
    for mode in 0..3usize {
        for pre in [0usize, 1, 2, 5] {
            for ticks in [1usize, 2] {
                do_purge(&mut w, mode, pre, ticks);
            }
        }
    }

    // 4. oracle-only: the tokio multi-thread scheduler picks the interleaving
    let rounds = if args.thorough() { 2_000 } else { 250 };
    for k in [2usize, 4, 8] {
        do_stress(&mut w, k, rounds);
    }

    w.finish(&[
        ("exhaustive_cases_k_le_3", exhaustive.to_string()),
        ("k4_orders_run", k4.to_string()),
        ("k4_orders_total", "369600".to_string()),
        ("random_cases", n_random.to_string()),
    ]);
}
