// shared helpers of the hx-keyspace executors
