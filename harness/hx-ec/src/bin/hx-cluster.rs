//! hx-cluster: implementation executor for C01 (cluster convergence) and C06 (a successful
//! write reached what its level promises).
//!
//! 2-4 real in-process nodes, each: a fault-injecting store, a `KeyspaceGroup`, the real
//! `ConsistencyService` + `ReplicationService` on an in-process RPC server
//! (`Server::verif_local`), a real `ReplicatedStoreHandle` (through `verif::store_handle`
//! with a real node selector), and the real repair code (`verif::repair_peers` /
//! `exchange_*`).  No OS sockets.  The wall clock is injected.
//!
//! Case line: schedule tokens, each followed by an observation token `=...` holding what
//! the model cannot predict (stamps the clocks drew, the selector's choice).
//!   W:<tick>                         set the wall clock
//!   I:<i>:<lvl>:p:<k>:<pl>           node i: put         (lvl = none one two three quorum localquorum all eachquorum)
//!   I:<i>:<lvl>:P:<k.pl,...>         node i: put_many
//!   I:<i>:<lvl>:d:<k>                node i: del
//!   I:<i>:<lvl>:D:<k,...>            node i: del_many
//!   L:<j>:<0|1>                      link to node j down/up
//!   B:<i>:<j>                        node i sends its pending mutations to node j as one batch
//!   F:<i>                            node i forgets its pending mutations (batch window over)
//!   T                                the batching interval of the REAL task distributors elapses (the only
//!                                    place where time moves): every node sends everything registered with
//!                                    its distributor since the last flush to every member it can reach
//!   X:<j>:<i>                        node j runs one complete repair exchange against node i
//!   XG:<j>:<i>                       a complete exchange during which the PEER's document reads fail: the
//!                                    state is fetched, the removals apply, the documents cannot be
//!                                    fetched; node j must not consider itself in sync
//!   XD:<j>:<i> XR:<j> XM:<j>:<i>     the three steps of an exchange, separately
//!   XF:<j>:<i>                       a complete exchange during which every storage write of node j fails:
//!                                    node j must stay as it is AND must not consider itself in sync
//!   G:<j>:<i>:<kz>:<ka>:<kb>         node j's exchange against node i RACES with writes on node i: put kz
//!                                    completes; put ka is held inside its storage call; the exchange
//!                                    starts (its GetState queues behind ka); put kb is queued; ka is
//!                                    released.  Observation `b:` = whether node j holds kb afterwards,
//!                                    i.e. which of the two legal serialisations happened.
//!   P:<i>                            purge on node i
//!   R:<i>                            restart node i on its store
//!   Q                                quiesce: links up, every ordered pair repairs once; then the
//!                                    convergence oracle is evaluated

use std::borrow::Cow;
use std::collections::BTreeMap;
use std::net::SocketAddr;
use std::sync::Arc;
use std::time::Duration;

use datacake_crdt::HLCTimestamp;
use datacake_eventual_consistency::verif::*;
use datacake_eventual_consistency::{ReplicatedStoreHandle, Storage, StoreError};
use datacake_node::{
    verif as nverif, Clock, ClusterMember, ClusterStatistics, Consistency, ConsistencyError, DCAwareSelector,
    DatacakeHandle, MembershipChange, Nodes, RpcNetwork,
};
use datacake_rpc::Server;
use hx_ec::*;
use hxcommon::{quiet_panics, Args, CaseWriter, Rng};

const DC: &str = "dc";

fn addr_of(i: usize) -> SocketAddr {
    SocketAddr::from(([127, 0, 0, 1], 7000 + i as u16))
}

#[derive(Clone, Debug)]
enum Mut {
    Put(u64, u64, u64),          // k, stamp, payload
    PutMany(Vec<(u64, u64, u64)>),
    Del(u64, u64),
    DelMany(Vec<(u64, u64)>),
}

struct NodeH {
    id: usize,
    store: Arc<Faulty>,
    clock: Clock,
    group: KeyspaceGroup<Faulty>,
    network: RpcNetwork,
    #[allow(dead_code)]
    server: Server,
    node_handle: DatacakeHandle,
    handle: ReplicatedStoreHandle<Faulty>,
    ctx: ReplicationCycleContext<Faulty>,
    tracker: RepairTracker,
    pending: Vec<Mut>,
    /// what the node's task distributor has been handed since its last flush
    queued: Vec<Mut>,
    distributor: Distributor,
    slot: Option<ExchangeDiff>,
    #[allow(dead_code)]
    keep: tokio::sync::watch::Sender<MembershipChange>,
}

async fn serve(addr: SocketAddr, group: &KeyspaceGroup<Faulty>, network: &RpcNetwork) -> Server {
    let server = Server::verif_local(addr);
    server.add_service(ConsistencyService::new(group.clone(), network.clone()));
    server.add_service(ReplicationService::new(group.clone()));
    server
}

async fn make_node(id: usize, n: usize, store: Arc<Faulty>, with_members: bool) -> NodeH {
    let addr = addr_of(id);
    let clock = Clock::new(id as u8);
    let group = KeyspaceGroup::new(store.clone(), clock.clone()).await;
    group.load_states_from_storage().await.expect("load");
    let network = RpcNetwork::default();
    let server = serve(addr, &group, &network).await;
    let selector = nverif::start_node_selector(addr, Cow::Borrowed(DC), DCAwareSelector::default()).await;
    let mut dcs: BTreeMap<Cow<'static, str>, Nodes> = BTreeMap::new();
    dcs.insert(Cow::Borrowed(DC), (0..n).map(addr_of).collect());
    nverif::set_nodes(&selector, dcs).await;
    let (keep, rx) = tokio::sync::watch::channel(MembershipChange::default());
    let node_handle = nverif::make_handle(
        ClusterMember::new(id as u8, addr, DC.to_string()),
        clock.clone(),
        network.clone(),
        selector,
        ClusterStatistics::default(),
        rx,
    );
    let distributor = start_distributor::<Faulty>(clock.clone(), network.clone(), id as u8, addr).await;
    // In a distributor schedule (one with `T` events) the distributor knows the other members from
    // the start, as the membership watcher would tell it.  Elsewhere it knows nobody: exchanges move
    // the (virtual) clock by themselves - `begin_keyspace_sync` polls its progress every 250 ms -
    // so a time-driven flush in the middle of a schedule could not be predicted by the model.
    if with_members {
    distributor.membership_change(MembershipChange {
        joined: (0..n).filter(|j| *j != id).map(|j| ClusterMember::new(j as u8, addr_of(j), DC.to_string())).collect(),
        left: Vec::new(),
    });
    }
    let handle = store_handle(node_handle.clone(), group.clone(), &distributor);
    let ctx = repair_context(group.clone(), network.clone());
    NodeH {
        id,
        store,
        clock,
        group,
        network,
        server,
        node_handle,
        handle,
        ctx,
        tracker: RepairTracker::default(),
        pending: Vec::new(),
        queued: Vec::new(),
        distributor,
        slot: None,
        keep,
    }
}

fn level_of(s: &str) -> Consistency {
    match s {
        "none" => Consistency::None,
        "one" => Consistency::One,
        "two" => Consistency::Two,
        "three" => Consistency::Three,
        "quorum" => Consistency::Quorum,
        "localquorum" => Consistency::LocalQuorum,
        "all" => Consistency::All,
        "eachquorum" => Consistency::EachQuorum,
        _ => panic!("level"),
    }
}

fn required(level: &str, n: usize) -> usize {
    let others = n - 1;
    match level {
        "none" => 0,
        "one" => 1,
        "two" => 2,
        "three" => 3,
        "quorum" | "localquorum" | "eachquorum" => n / 2, // a majority counting the issuer
        "all" => others,
        _ => 0,
    }
}

fn hx(s: &str) -> u64 {
    u64::from_str_radix(s, 16).unwrap()
}

async fn settle() {
    for _ in 0..64 {
        tokio::task::yield_now().await;
    }
}

async fn dump_node(n: &NodeH, probes: &[u64]) -> String {
    let set = actor_set(&n.group, KS).await;
    format!("n{}{{{} {}}}", n.id, show_set(&set, probes), show_store(&*n.store, KS).await)
}

fn show_res<E: std::error::Error + Send + 'static>(r: &Result<(), StoreError<E>>) -> String {
    match r {
        Ok(()) => "ok".into(),
        Err(StoreError::ConsistencyError(ConsistencyError::ConsistencyFailure { responses, required, .. })) => {
            format!("cf.{}.{}", responses, required)
        },
        Err(StoreError::ConsistencyError(ConsistencyError::NotEnoughNodes { live, required })) => {
            format!("nen.{}.{}", live, required)
        },
        Err(_) => "err".into(),
    }
}

async fn metadata_of(n: &NodeH) -> Vec<(u64, u64, bool)> {
    let mut v: Vec<(u64, u64, bool)> = n
        .store
        .iter_metadata(KS)
        .await
        .map(|it| it.map(|(k, t, d)| (k, t.as_u64(), d)).collect())
        .unwrap_or_default();
    v.sort();
    v
}

fn batch_of(pending: &[Mut]) -> Option<BatchPayload> {
    let ts = HLCTimestamp::from_u64(pending.iter().map(|m| match m {
        Mut::Put(_, t, _) | Mut::Del(_, t) => *t,
        Mut::PutMany(v) => v.first().map(|x| x.1).unwrap_or(0),
        Mut::DelMany(v) => v.first().map(|x| x.1).unwrap_or(0),
    }).max()?);
    let mut puts = Vec::new();
    let mut dels = Vec::new();
    for m in pending {
        match m {
            Mut::Put(k, t, p) => puts.push(mk_doc(*k, *t, *p)),
            Mut::PutMany(v) => puts.extend(v.iter().map(|(k, t, p)| mk_doc(*k, *t, *p))),
            Mut::Del(k, t) => dels.push(mk_meta(*k, *t)),
            Mut::DelMany(v) => dels.extend(v.iter().map(|(k, t)| mk_meta(*k, *t))),
        }
    }
    let mut modified = smallvec::SmallVec::new();
    if !puts.is_empty() {
        modified.push(MultiPutPayload { keyspace: KS.to_string(), ctx: None, documents: smallvec::SmallVec::from_vec(puts), timestamp: ts });
    }
    let mut removed = smallvec::SmallVec::new();
    if !dels.is_empty() {
        removed.push(MultiRemovePayload { keyspace: KS.to_string(), documents: smallvec::SmallVec::from_vec(dels), timestamp: ts });
    }
    Some(BatchPayload { timestamp: ts, modified, removed })
}

struct Outcome {
    case_toks: Vec<String>,
    results: Vec<String>,
    fails: Vec<(String, String)>,
}

/// Runs a schedule (tokens without observations); returns the case line with observations,
/// the result line and the oracle failures.
async fn run_schedule(n: usize, probes: &[u64], sched: &[String], stats: &mut hxcommon::Stats) -> Outcome {
    let mut nodes: Vec<NodeH> = Vec::new();
    let dist_mode = sched.iter().any(|t| t == "T");
    // a schedule whose wall clock spans a forgiveness period or more is outside the premises of
    // C01/C06 (cut-offs refuse and purge): the model is still compared, the oracles are not applied
    let wide = {
        let ticks: Vec<u64> = sched.iter().filter_map(|t| t.strip_prefix("W:").map(hx)).collect();
        match (ticks.iter().min(), ticks.iter().max()) {
            (Some(a), Some(b)) => b - a >= 3600 * 250 - 100_000,
            _ => false,
        }
    };
    for i in 0..n {
        datacake_rpc::verif::unregister_local_server(addr_of(i));
    }
    datacake_crdt::verif::set_wall_clock(Duration::from_millis(4 * 90_000_000));
    for i in 0..n {
        nodes.push(make_node(i, n, Arc::new(Faulty::default()), dist_mode).await);
    }
    let mut links = vec![true; n];
    let mut out = Outcome { case_toks: Vec::new(), results: Vec::new(), fails: Vec::new() };
    // every operation issued: (key, stamp, Some(payload) | None)
    let mut issued: Vec<(u64, u64, Option<u64>)> = Vec::new();
    let mut last_issue_done = false;
    for tok in sched {
        let p: Vec<&str> = tok.split(':').collect();
        let mut obs = String::new();
        let mut res = String::new();
        let mut touched: Vec<usize> = Vec::new();
        match p.as_slice() {
            ["W", t] => {
                datacake_crdt::verif::set_wall_clock(Duration::from_millis(hx(t) * 4));
            },
            ["I", i, lvl, kind, rest @ ..] => {
                let i: usize = i.parse().unwrap();
                let level = level_of(lvl);
                let sel: Vec<usize> = match nodes[i].node_handle.select_nodes(level).await {
                    Ok(v) => v.iter().map(|a| (a.port() - 7000) as usize).collect(),
                    Err(_) => Vec::new(),
                };
                let before = metadata_of(&nodes[i]).await;
                // the store handle or the keyspace handle made from it: which one issues the call
                // is not part of the event's meaning (it rotates with the token's text)
                let via_ks = tok.bytes().map(|b| b as usize).sum::<usize>() % 2 == 1;
                let ksh = nodes[i].handle.with_keyspace(KS);
                let r = match (*kind, rest) {
                    ("p", [k, pl]) => {
                        let data = hx(pl).to_le_bytes().to_vec();
                        if via_ks { ksh.put(hx(k), data, level).await } else { nodes[i].handle.put(KS, hx(k), data, level).await }
                    },
                    ("P", [items]) => {
                        let docs: Vec<(u64, Vec<u8>)> = items
                            .split(',')
                            .map(|it| {
                                let f: Vec<&str> = it.split('.').collect();
                                (hx(f[0]), hx(f[1]).to_le_bytes().to_vec())
                            })
                            .collect();
                        if via_ks { ksh.put_many(docs, level).await } else { nodes[i].handle.put_many(KS, docs, level).await }
                    },
                    ("d", [k]) => {
                        if via_ks { ksh.del(hx(k), level).await } else { nodes[i].handle.del(KS, hx(k), level).await }
                    },
                    ("D", [items]) => {
                        let ids: Vec<u64> = items.split(',').map(hx).collect();
                        if via_ks { ksh.del_many(ids, level).await } else { nodes[i].handle.del_many(KS, ids, level).await }
                    },
                    _ => panic!("bad issue token {tok}"),
                };
                stats.hit(if via_ks { "issued_through_keyspace_handle" } else { "issued_through_store_handle" });
                settle().await;
                // the stamp the clock drew: the new/changed metadata rows of the issuer
                let after = metadata_of(&nodes[i]).await;
                let changed: Vec<&(u64, u64, bool)> = after.iter().filter(|x| !before.contains(x)).collect();
                let stamp = changed.iter().map(|x| x.1).max().unwrap_or(0);
                let m = match (*kind, rest) {
                    ("p", [k, pl]) => Mut::Put(hx(k), stamp, hx(pl)),
                    ("P", [items]) => Mut::PutMany(
                        items
                            .split(',')
                            .map(|it| {
                                let f: Vec<&str> = it.split('.').collect();
                                (hx(f[0]), stamp, hx(f[1]))
                            })
                            .collect(),
                    ),
                    ("d", [k]) => Mut::Del(hx(k), stamp),
                    ("D", [items]) => Mut::DelMany(items.split(',').map(|k| (hx(k), stamp)).collect()),
                    _ => unreachable!(),
                };
                if stamp != 0 {
                    match &m {
                        Mut::Put(k, t, pl) => issued.push((*k, *t, Some(*pl))),
                        Mut::PutMany(v) => issued.extend(v.iter().map(|(k, t, pl)| (*k, *t, Some(*pl)))),
                        Mut::Del(k, t) => issued.push((*k, *t, None)),
                        Mut::DelMany(v) => issued.extend(v.iter().map(|(k, t)| (*k, *t, None))),
                    }
                    nodes[i].pending.push(m.clone());
                    nodes[i].queued.push(m.clone());
                }
                let selv: Vec<String> = sel.iter().map(|x| x.to_string()).collect();
                obs = format!("=sel:{};ts:{:x}", selv.join(","), stamp);
                res = show_res(&r);
                touched.push(i);
                touched.extend(sel.iter().cloned());
                stats.hit(&format!("issue_{}", if res == "ok" { "ok" } else { &res[..2] }));
                // ---- C06 oracle ----
                let req = required(lvl, n);
                let ackers: Vec<usize> = sel.iter().cloned().filter(|j| links[*j]).collect();
                let holds = |meta: &Vec<(u64, u64, bool)>, m: &Mut| -> bool {
                    let items: Vec<(u64, u64)> = match m {
                        Mut::Put(k, t, _) | Mut::Del(k, t) => vec![(*k, *t)],
                        Mut::PutMany(v) => v.iter().map(|(k, t, _)| (*k, *t)).collect(),
                        Mut::DelMany(v) => v.iter().map(|(k, t)| (*k, *t)).collect(),
                    };
                    items.iter().all(|(k, t)| meta.iter().any(|(mk, mt, _)| mk == k && HLCTimestamp::from_u64(*mt) >= HLCTimestamp::from_u64(*t)))
                };
                if let Err(StoreError::ConsistencyError(ConsistencyError::NotEnoughNodes { .. })) = &r {
                    // refused before anything was written: only allowed when too few other nodes exist
                    if n - 1 >= req {
                        out.fails.push(("spurious-not-enough-nodes".into(), format!("{tok}")));
                    }
                    if stamp != 0 {
                        out.fails.push(("refused-write-was-applied".into(), format!("{tok}")));
                    }
                } else if stamp == 0 {
                    out.fails.push(("local-write-missing".into(), format!("{tok}: issuer's store unchanged")));
                } else {
                    if !holds(&after, &m) {
                        out.fails.push(("local-write-missing".into(), format!("{tok}: not readable on the issuer")));
                    }
                    let mut have = 0usize;
                    for j in 0..n {
                        if j != i && holds(&metadata_of(&nodes[j]).await, &m) {
                            have += 1;
                        }
                    }
                    match &r {
                        Ok(()) => {
                            if have < req || sel.len() < req || sel.contains(&i) {
                                out.fails.push(("ok-without-promised-replicas".into(), format!("{tok}: level {lvl} needs {req}, selected {:?}, replicas holding it {have}", sel)));
                            }
                        },
                        Err(StoreError::ConsistencyError(ConsistencyError::ConsistencyFailure { responses, required, .. })) => {
                            if *responses != ackers.len() || *required != sel.len() || ackers.len() == sel.len() {
                                out.fails.push(("consistency-error-misreports".into(), format!("{tok}: reported {responses}/{required}, selected {:?}, reachable {:?}", sel, ackers)));
                            }
                        },
                        Err(StoreError::ConsistencyError(ConsistencyError::NotEnoughNodes { .. })) => {
                            if n - 1 >= req {
                                out.fails.push(("spurious-not-enough-nodes".into(), format!("{tok}")));
                            }
                        },
                        Err(_) => out.fails.push(("unexpected-error".into(), format!("{tok}"))),
                    }
                }
            },
            ["L", j, b] => {
                let j: usize = j.parse().unwrap();
                links[j] = *b == "1";
                datacake_rpc::verif::set_link_up(addr_of(j), links[j]);
            },
            ["B", i, j] => {
                let (i, j): (usize, usize) = (i.parse().unwrap(), j.parse().unwrap());
                if let Some(batch) = batch_of(&nodes[i].pending) {
                    let ch = nodes[i].network.get_or_connect(addr_of(j));
                    let mut client = ConsistencyClient::<Faulty>::new(nodes[i].clock.clone(), ch);
                    let r = client.apply_batch(&batch).await;
                    res = if r.is_ok() { "ok".into() } else { "fail".into() };
                    stats.hit(&format!("batch_{res}"));
                } else {
                    res = "empty".into();
                }
                settle().await;
                touched.push(j);
            },
            ["F", i] => {
                let i: usize = i.parse().unwrap();
                nodes[i].pending.clear();
            },
            ["T"] => {
                tokio::time::sleep(Duration::from_millis(1100)).await;
                settle().await;
                // ---- C06 oracle: whatever the result of the call was, the mutation is replicated with
                //      the next batch to every member the node can reach ----
                for i in 0..n {
                    let queued = std::mem::take(&mut nodes[i].queued);
                    for j in 0..n {
                        if j == i || !links[j] {
                            continue;
                        }
                        let meta = metadata_of(&nodes[j]).await;
                        for m in &queued {
                            let items: Vec<(u64, u64)> = match m {
                                Mut::Put(k, t, _) | Mut::Del(k, t) => vec![(*k, *t)],
                                Mut::PutMany(v) => v.iter().map(|(k, t, _)| (*k, *t)).collect(),
                                Mut::DelMany(v) => v.iter().map(|(k, t)| (*k, *t)).collect(),
                            };
                            for (k, t) in items {
                                if !meta.iter().any(|(mk, mt, _)| *mk == k && HLCTimestamp::from_u64(*mt) >= HLCTimestamp::from_u64(t)) {
                                    out.fails.push((
                                        "mutation-not-replicated-with-next-batch".into(),
                                        format!("{tok}: node {j} is reachable but does not hold {:x}@{:x} issued by node {i}", k, t),
                                    ));
                                }
                            }
                        }
                    }
                }
                touched.extend(0..n);
                stats.hit("distributor_flush");
            },
            ["X", j, i] => {
                let (j, i): (usize, usize) = (j.parse().unwrap(), i.parse().unwrap());
                let mut peers = BTreeMap::new();
                peers.insert(i as u8, addr_of(i));
                let nj = &mut nodes[j];
                repair_peers(&nj.ctx, &peers, &mut nj.tracker).await;
                settle().await;
                touched.push(j);
                stats.hit("repair_full");
            },
            ["XG", j, i] => {
                let (j, i): (usize, usize) = (j.parse().unwrap(), i.parse().unwrap());
                let mut peers = BTreeMap::new();
                peers.insert(i as u8, addr_of(i));
                nodes[i].store.set_fail_reads(true);
                {
                    let nj = &mut nodes[j];
                    repair_peers(&nj.ctx, &peers, &mut nj.tracker).await;
                }
                settle().await;
                nodes[i].store.set_fail_reads(false);
                touched.push(j);
                stats.hit("repair_with_failing_fetch");
            },
            ["XF", j, i] => {
                let (j, i): (usize, usize) = (j.parse().unwrap(), i.parse().unwrap());
                let mut peers = BTreeMap::new();
                peers.insert(i as u8, addr_of(i));
                nodes[j].store.set_fail_all(true);
                {
                    let nj = &mut nodes[j];
                    repair_peers(&nj.ctx, &peers, &mut nj.tracker).await;
                }
                settle().await;
                nodes[j].store.set_fail_all(false);
                touched.push(j);
                stats.hit("repair_with_failing_storage");
            },
            ["XD", j, i] => {
                let (j, i): (usize, usize) = (j.parse().unwrap(), i.parse().unwrap());
                let d = exchange_diff(&nodes[j].ctx, KS, i as u8, addr_of(i)).await;
                res = match &d {
                    Ok(d) => {
                        let mut m: Pairs = d.modified.iter().map(|x| (x.id, x.last_updated.as_u64())).collect();
                        let mut r: Pairs = d.removed.iter().map(|x| (x.id, x.last_updated.as_u64())).collect();
                        m.sort();
                        r.sort();
                        format!("F{}{}", show_pairs(&m), show_pairs(&r))
                    },
                    Err(_) => "fail".into(),
                };
                nodes[j].slot = d.ok();
                stats.hit("repair_diff");
            },
            ["XR", j] => {
                let j: usize = j.parse().unwrap();
                if let Some(d) = &nodes[j].slot {
                    let r = exchange_removals(&nodes[j].ctx, KS, d.removed.clone()).await;
                    res = if r.is_ok() { "ok".into() } else { "fail".into() };
                } else {
                    res = "noslot".into();
                }
                settle().await;
                touched.push(j);
            },
            ["XM", j, i] => {
                let (j, i): (usize, usize) = (j.parse().unwrap(), i.parse().unwrap());
                if let Some(d) = &nodes[j].slot {
                    let r = exchange_modified(&nodes[j].ctx, KS, i as u8, addr_of(i), d.modified.clone()).await;
                    res = if r.is_ok() { "ok".into() } else { "fail".into() };
                } else {
                    res = "noslot".into();
                }
                settle().await;
                touched.push(j);
            },
            ["G", j, i, kz, ka, kb] => {
                let (j, i): (usize, usize) = (j.parse().unwrap(), i.parse().unwrap());
                let (kz, ka, kb) = (hx(kz), hx(ka), hx(kb));
                let pay = |k: u64| (0x6000 + k).to_le_bytes().to_vec();
                // Z completes first, so that the exchange's poll finds the keyspace changed
                let _ = nodes[i].handle.put(KS, kz, pay(kz), Consistency::None).await;
                settle().await;
                let store_i = nodes[i].store.clone();
                let (h_a, h_b) = (nodes[i].handle.clone(), nodes[i].handle.clone());
                let (pa, pb) = (pay(ka), pay(kb));
                store_i.set_plan(Plan::Hold);
                let ta = tokio::spawn(async move { h_a.put(KS, ka, pa, Consistency::None).await.is_ok() });
                settle().await; // node i's actor now sits in the storage call of A
                let mut peers = BTreeMap::new();
                peers.insert(i as u8, addr_of(i));
                {
                    let nj = &mut nodes[j];
                    let repair = repair_peers(&nj.ctx, &peers, &mut nj.tracker);
                    let driver = async {
                        settle().await; // the exchange has queued what it asks of node i's actor
                        let tb = tokio::spawn(async move { h_b.put(KS, kb, pb, Consistency::None).await.is_ok() });
                        settle().await;
                        store_i.release();
                        let _ = ta.await;
                        let _ = tb.await;
                    };
                    tokio::join!(repair, driver);
                }
                settle().await;
                let meta_i = metadata_of(&nodes[i]).await;
                let stamp_of = |k: u64| meta_i.iter().find(|r| r.0 == k && !r.2).map(|r| r.1).unwrap_or(0);
                let (tz, ta_, tb_) = (stamp_of(kz), stamp_of(ka), stamp_of(kb));
                for (k, t) in [(kz, tz), (ka, ta_), (kb, tb_)] {
                    if t == 0 {
                        out.fails.push(("local-write-missing".into(), format!("{tok}: put of {:x} not readable on the issuer", k)));
                    } else {
                        issued.push((k, t, Some(0x6000 + k)));
                        nodes[i].pending.push(Mut::Put(k, t, 0x6000 + k));
                        nodes[i].queued.push(Mut::Put(k, t, 0x6000 + k));
                    }
                }
                let has_b = metadata_of(&nodes[j]).await.iter().any(|r| r.0 == kb && r.1 == tb_ && !r.2);
                obs = format!("=ts:{:x},{:x},{:x};b:{}", tz, ta_, tb_, has_b as u8);
                touched.push(i);
                touched.push(j);
                stats.hit(if has_b { "race_exchange_saw_late_write" } else { "race_exchange_missed_late_write" });
            },
            ["P", i] => {
                let i: usize = i.parse().unwrap();
                let ks = nodes[i].group.get_or_create_keyspace(KS).await;
                let _ = ks.send(msg_purge::<Faulty>()).await;
                touched.push(i);
            },
            ["R", i] => {
                let i: usize = i.parse().unwrap();
                let store = nodes[i].store.clone();
                let pending = std::mem::take(&mut nodes[i].pending);
                datacake_rpc::verif::unregister_local_server(addr_of(i));
                nodes[i].distributor.kill();
                let mut fresh = make_node(i, n, store, dist_mode).await;
                fresh.pending = pending;
                datacake_rpc::verif::set_link_up(addr_of(i), links[i]);
                nodes[i] = fresh;
                touched.push(i);
                stats.hit("restart");
            },
            ["Q"] => {
                for j in 0..n {
                    links[j] = true;
                    datacake_rpc::verif::set_link_up(addr_of(j), true);
                }
                for j in 0..n {
                    for i in 0..n {
                        if i != j {
                            let mut peers = BTreeMap::new();
                            peers.insert(i as u8, addr_of(i));
                            let nj = &mut nodes[j];
                            repair_peers(&nj.ctx, &peers, &mut nj.tracker).await;
                            settle().await;
                        }
                    }
                }
                touched.extend(0..n);
                last_issue_done = true;
            },
            _ => res = "?tok".into(),
        }
        out.case_toks.push(tok.clone());
        if !obs.is_empty() {
            out.case_toks.push(obs);
        }
        touched.sort();
        touched.dedup();
        let mut line = format!("{}:{}", p[0], res);
        for t in touched {
            line.push(' ');
            line.push_str(&dump_node(&nodes[t], probes).await);
        }
        out.results.push(line);
    }
    // ---- C01 oracle: after quiescence every node serves exactly the last-writer-wins documents ----
    if wide {
        out.fails.clear();
        stats.hit("wide_schedules");
    }
    if last_issue_done && !wide {
        let mut lww: BTreeMap<u64, (u64, Option<u64>)> = BTreeMap::new();
        for (k, t, pl) in &issued {
            let e = lww.entry(*k).or_insert((*t, *pl));
            if HLCTimestamp::from_u64(e.0) < HLCTimestamp::from_u64(*t) {
                *e = (*t, *pl);
            }
        }
        let expect: Vec<(u64, u64, u64)> =
            lww.iter().filter_map(|(k, (t, pl))| pl.map(|p| (*k, *t, p))).collect();
        for nd in &nodes {
            let mut have: Vec<(u64, u64, u64)> = Vec::new();
            for (k, _, dead) in metadata_of(nd).await {
                if !dead {
                    if let Ok(Some(d)) = nd.store.get(KS, k).await {
                        have.push((k, d.last_updated().as_u64(), payload_of(&d)));
                    }
                }
            }
            have.sort();
            // ... and what a client READS through the public handle of that node
            let all_keys: Vec<u64> = {
                let mut v: Vec<u64> = issued.iter().map(|x| x.0).collect();
                v.sort();
                v.dedup();
                v
            };
            let mut read: Vec<(u64, u64, u64)> = Vec::new();
            for k in &all_keys {
                if let Ok(Some(d)) = nd.handle.get(KS, *k).await {
                    read.push((*k, d.last_updated().as_u64(), payload_of(&d)));
                }
            }
            let mut read_many: Vec<(u64, u64, u64)> = match nd.handle.get_many(KS, all_keys.clone()).await {
                Ok(it) => it.map(|d| (d.id(), d.last_updated().as_u64(), payload_of(&d))).collect(),
                Err(_) => vec![(u64::MAX, 0, 0)],
            };
            read_many.sort();
            let ksh = nd.handle.with_keyspace(KS);
            let mut read_ks: Vec<(u64, u64, u64)> = Vec::new();
            for k in &all_keys {
                if let Ok(Some(d)) = ksh.get(*k).await {
                    read_ks.push((*k, d.last_updated().as_u64(), payload_of(&d)));
                }
            }
            if read_ks != expect {
                out.fails.push((
                    "reads-are-not-the-lww-documents".into(),
                    format!("node {}: the keyspace handle's get returns {:x?}, last-writer-wins is {:x?}", nd.id, read_ks, expect),
                ));
            }
            if read != expect || read_many != expect {
                out.fails.push((
                    "reads-are-not-the-lww-documents".into(),
                    format!("node {}: get returns {:x?}, get_many returns {:x?}, last-writer-wins is {:x?}", nd.id, read, read_many, expect),
                ));
            }
            if have != expect {
                out.fails.push((
                    "nodes-did-not-converge-to-lww".into(),
                    format!("node {}: serves {:x?}, last-writer-wins is {:x?}", nd.id, have, expect),
                ));
            }
            // the in-memory set agrees with what is served
            let (e, _) = set_contents(&actor_set(&nd.group, KS).await);
            let live: Pairs = have.iter().map(|(k, t, _)| (*k, *t)).collect();
            if e != live {
                out.fails.push(("set-and-storage-disagree".into(), format!("node {}: set {:x?} storage {:x?}", nd.id, e, live)));
            }
        }
        stats.hit("quiesced_histories");
    }
    // the nodes of this case go away: their distributors must not flush into the next case
    for nd in &nodes {
        nd.distributor.kill();
    }
    out
}

fn strip_obs(toks: &[&str]) -> Vec<String> {
    toks.iter().filter(|t| !t.starts_with('=')).map(|s| s.to_string()).collect()
}

async fn run_case(w: &mut CaseWriter, n: usize, probes: &[u64], sched: &[String]) {
    let mut stats = std::mem::take(&mut w.stats);
    let o = run_schedule(n, probes, sched, &mut stats).await;
    w.stats = stats;
    let pv: Vec<String> = probes.iter().map(|t| format!("{:x}", t)).collect();
    let case = format!("cl {} probes={} {}", n, pv.join(","), o.case_toks.join(" "));
    w.case(&case, &o.results.join(" | "));
    let mut seen = std::collections::BTreeSet::new();
    for (class, detail) in o.fails {
        if seen.insert(class.clone()) {
            w.fail(&class, &case, &detail);
        }
    }
}

const LEVELS: [&str; 8] = ["none", "one", "two", "three", "quorum", "localquorum", "all", "eachquorum"];

fn random_schedule(rng: &mut Rng, n: usize, focus_c06: bool) -> Vec<String> {
    let keys = [1u64, 2, 3];
    let mut toks: Vec<String> = Vec::new();
    let mut tick = 90_000_100u64;
    let len = 4 + rng.below(if focus_c06 { 8 } else { 22 }) as usize;
    let mut payload = 0x100 + rng.below(1000) * 16;
    let mut have_slot = vec![false; n];
    let mut max_tick = tick;
    let mut restarted_since_max = false;
    let mut ever_restarted = false;
    let mut race_key = 0x40u64;
    for _ in 0..len {
        // the wall clock moves (sometimes stalls or steps back a little): everything stays
        // well within one forgiveness period
        tick = match rng.below(6) {
            0 => tick,
            1 => tick.saturating_sub(rng.below(50)),
            _ => tick + rng.below(2000),
        };
        // a node clock is not persisted: after a restart it starts from the wall clock, so the
        // wall clock must not be behind what the node had issued before (NTP stepping back across
        // a restart is outside the properties)
        if restarted_since_max {
            tick = tick.max(max_tick + 1);
            restarted_since_max = false;
            ever_restarted = true;
        }
        if ever_restarted {
            // ... and it must not step back below it later either: the restarted node's clock knows
            // nothing but the wall until somebody tells it a newer stamp
            tick = tick.max(max_tick);
        }
        max_tick = max_tick.max(tick);
        toks.push(format!("W:{:x}", tick));
        payload += 1;
        let i = rng.below(n as u64) as usize;
        let j = (i + 1 + rng.below(n as u64 - 1) as usize) % n;
        let choice = if focus_c06 { rng.below(6) } else { rng.below(17) };
        match choice {
            0 | 1 | 2 | 3 => {
                let lvl = if focus_c06 || rng.chance(1, 2) { *rng.pick(&LEVELS) } else { "none" };
                let tok = match rng.below(6) {
                    0 | 1 => format!("I:{}:{}:p:{:x}:{:x}", i, lvl, rng.pick(&keys), payload),
                    2 => format!("I:{}:{}:d:{:x}", i, lvl, rng.pick(&keys)),
                    3 | 4 => {
                        let m = 1 + rng.below(3) as usize;
                        let items: Vec<String> = (0..m).map(|x| format!("{:x}.{:x}", rng.pick(&keys), payload + 0x1000 * x as u64)).collect();
                        format!("I:{}:{}:P:{}", i, lvl, items.join(","))
                    },
                    _ => {
                        let m = 1 + rng.below(3) as usize;
                        let items: Vec<String> = (0..m).map(|_| format!("{:x}", rng.pick(&keys))).collect();
                        format!("I:{}:{}:D:{}", i, lvl, items.join(","))
                    },
                };
                toks.push(tok);
            },
            4 | 5 => toks.push(format!("L:{}:{}", j, rng.below(2))),
            6 | 7 => toks.push(format!("B:{}:{}", i, j)),
            8 => toks.push(format!("F:{}", i)),
            9 => toks.push(format!("X:{}:{}", j, i)),
            10 => toks.push(format!("X:{}:{}", j, i)),
            11 => {
                toks.push(format!("XD:{}:{}", j, i));
                have_slot[j] = true;
            },
            12 => {
                if have_slot[j] {
                    toks.push(format!("XR:{}", j));
                }
            },
            13 => {
                if have_slot[j] {
                    toks.push(format!("XM:{}:{}", j, i));
                }
            },
            14 => toks.push(format!("P:{}", i)),
            16 => {
                // fresh ids, so that the three writes of the race are told apart
                race_key += 3;
                toks.push(format!("G:{}:{}:{:x}:{:x}:{:x}", j, i, race_key, race_key + 1, race_key + 2));
            },
            _ => {
                toks.push(format!("R:{}", i));
                restarted_since_max = true;
            },
        }
    }
    toks.push("Q".to_string());
    toks
}

/// A distributor schedule: client operations at every level with links going up and down,
/// restarts, and the batching interval of the real task distributors elapsing (`T`) - no
/// exchanges before the final quiescence, so that `T` is the only place where time moves.
fn random_distributor_schedule(rng: &mut Rng, n: usize) -> Vec<String> {
    let keys = [1u64, 2, 3];
    let mut toks: Vec<String> = Vec::new();
    let mut tick = 90_000_100u64;
    let mut payload = 0x7000 + rng.below(1000) * 16;
    for _ in 0..(3 + rng.below(12)) {
        tick += 1 + rng.below(2000);
        toks.push(format!("W:{:x}", tick));
        payload += 1;
        let i = rng.below(n as u64) as usize;
        let j = (i + 1 + rng.below(n as u64 - 1) as usize) % n;
        match rng.below(10) {
            0..=4 => {
                let lvl = *rng.pick(&LEVELS);
                toks.push(match rng.below(5) {
                    0 | 1 => format!("I:{}:{}:p:{:x}:{:x}", i, lvl, rng.pick(&keys), payload),
                    2 => format!("I:{}:{}:d:{:x}", i, lvl, rng.pick(&keys)),
                    3 => {
                        let m = 1 + rng.below(3) as usize;
                        let items: Vec<String> = (0..m).map(|x| format!("{:x}.{:x}", rng.pick(&keys), payload + 0x1000 * x as u64)).collect();
                        format!("I:{}:{}:P:{}", i, lvl, items.join(","))
                    },
                    _ => {
                        let m = 1 + rng.below(3) as usize;
                        let items: Vec<String> = (0..m).map(|_| format!("{:x}", rng.pick(&keys))).collect();
                        format!("I:{}:{}:D:{}", i, lvl, items.join(","))
                    },
                });
            },
            5 | 6 => toks.push(format!("L:{}:{}", j, rng.below(2))),
            7 | 8 => toks.push("T".to_string()),
            _ => {
                toks.push(format!("R:{}", i));
                tick += 1;
            },
        }
    }
    toks.push("T".to_string());
    toks.push("Q".to_string());
    toks
}

/// A wide schedule (C05): two or three nodes whose operations span several forgiveness periods,
/// with every kind of exchange in between - cut-offs move, old operations are refused, tombstones
/// get purged.  Only the model is compared (see `wide` in run_schedule).
fn random_wide_schedule(rng: &mut Rng, n: usize) -> Vec<String> {
    let keys = [1u64, 2, 3, 4];
    let mut toks: Vec<String> = Vec::new();
    let mut tick = 90_000_100u64;
    let mut payload = 0x8000 + rng.below(1000) * 16;
    let mut have_slot = vec![false; n];
    for _ in 0..(6 + rng.below(20)) {
        tick += match rng.below(5) {
            0 => 3600 * 250 + rng.below(5000), // more than a forgiveness period later
            1 => 3600 * 125,
            _ => 1 + rng.below(3000),
        };
        toks.push(format!("W:{:x}", tick));
        payload += 1;
        let i = rng.below(n as u64) as usize;
        let j = (i + 1 + rng.below(n as u64 - 1) as usize) % n;
        match rng.below(14) {
            0 | 1 | 2 => toks.push(format!("I:{}:none:p:{:x}:{:x}", i, rng.pick(&keys), payload)),
            3 | 4 => toks.push(format!("I:{}:none:d:{:x}", i, rng.pick(&keys))),
            5 => {
                let items: Vec<String> = (0..1 + rng.below(3)).map(|x| format!("{:x}.{:x}", keys[x as usize], payload + 0x1000 * x)).collect();
                toks.push(format!("I:{}:one:P:{}", i, items.join(",")));
            },
            6 => {
                let items: Vec<String> = (0..1 + rng.below(3)).map(|x| format!("{:x}", keys[x as usize])).collect();
                toks.push(format!("I:{}:none:D:{}", i, items.join(",")));
            },
            7 | 8 | 9 => toks.push(format!("X:{}:{}", j, i)),
            10 => {
                toks.push(format!("XD:{}:{}", j, i));
                have_slot[j] = true;
            },
            11 => {
                if have_slot[j] {
                    toks.push(if rng.chance(1, 2) { format!("XR:{}", j) } else { format!("XM:{}:{}", j, i) });
                }
            },
            12 => toks.push(format!("P:{}", i)),
            _ => toks.push(format!("B:{}:{}", i, j)),
        }
    }
    toks.push("Q".to_string());
    toks
}

/// The schedules the property names.
fn named_schedules() -> Vec<(usize, Vec<String>)> {
    let s = |v: &[&str]| v.iter().map(|x| x.to_string()).collect::<Vec<String>>();
    vec![
        // a lagging node repairs from an origin that did put, put, delete; removal half first / last
        (3, s(&["W:55d4a90", "L:2:0", "I:0:none:p:1:a1", "W:55d4a91", "I:0:none:p:2:a2", "W:55d4a92", "I:0:none:d:1",
                "L:2:1", "XD:2:0", "XR:2", "XM:2:0", "Q"])),
        (3, s(&["W:55d4a90", "L:2:0", "I:0:none:p:1:a1", "W:55d4a91", "I:0:none:p:2:a2", "W:55d4a92", "I:0:none:d:1",
                "L:2:1", "XD:2:0", "XM:2:0", "XR:2", "Q"])),
        // join after deletes
        (3, s(&["W:55d4a90", "I:0:all:p:1:b1", "W:55d4a95", "I:1:all:d:1", "R:2", "X:2:1", "Q"])),
        // a delete delivered before an older put of the same origin (batch re-sent after a direct message)
        (2, s(&["W:55d4a90", "L:1:0", "I:0:one:p:1:c1", "W:55d4a91", "L:1:1", "I:0:one:d:1", "B:0:1", "Q"])),
        // duplicated batch, restart in between
        (2, s(&["W:55d4a90", "I:0:none:P:1.d1,2.d2", "B:0:1", "B:0:1", "R:1", "B:0:1", "Q"])),
        // a delete of a document the node never held, issued after a peer is already in sync with it:
        // the peer must still learn of the tombstone (the node's change stamp must move)
        (2, s(&["W:55d4a90", "I:0:none:p:9:b9", "X:1:0", "W:55d4a93", "I:1:none:p:1:b1", "W:55d4a95", "I:0:none:d:1", "Q"])),
        (3, s(&["W:55d4a90", "I:0:none:p:9:b9", "X:1:0", "X:2:0", "W:55d4a93", "I:1:none:p:1:b1", "X:2:1", "W:55d4a95", "I:0:none:D:1,7", "Q"])),
        // two writes of one document inside one batching interval: the batch carries the newest stamp
        // WITH the newest bytes
        (2, s(&["W:55d4a90", "I:0:none:p:1:c1", "W:55d4a91", "I:0:none:p:1:c2", "T", "Q"])),
        (3, s(&["W:55d4a90", "I:0:none:p:1:c1", "W:55d4a91", "I:0:one:p:1:c2", "W:55d4a92", "I:0:none:P:1.c3,2.c4", "T", "Q"])),
        // a peer that could not be reached for one batch is still a member: the next batch reaches it
        (3, s(&["W:55d4a90", "I:0:none:p:1:d1", "L:1:0", "T", "L:1:1", "W:55d4a95", "I:0:none:p:2:d2", "T", "Q"])),
        // an exchange whose document fetch fails (after the state was fetched and the removals applied)
        // must be repeated too
        (2, s(&["W:55d4a90", "I:0:none:p:1:f1", "W:55d4a93", "I:0:none:p:2:f2", "W:55d4a95", "I:0:none:d:3", "XG:1:0", "Q"])),
        // an exchange whose writes all fail must be repeated: the node is not in sync afterwards
        (2, s(&["W:55d4a90", "I:0:none:p:1:f1", "W:55d4a95", "I:0:none:d:2", "XF:1:0", "Q"])),
        // an exchange races with writes on the polled node: what it did not see must still be pulled later
        (2, s(&["W:55d4a90", "I:0:none:p:1:f1", "X:1:0", "W:55d4a95", "G:1:0:41:42:43", "Q"])),
        (3, s(&["W:55d4a90", "I:0:none:p:1:f1", "W:55d4a95", "G:1:0:41:42:43", "X:2:0", "W:55d4a99", "G:2:1:44:45:46", "Q"])),
        // an id is re-put on another node while a third lags; the fetch races with the delete
        (3, s(&["W:55d4a90", "I:0:all:p:1:e1", "W:55d4a99", "L:2:0", "I:1:none:d:1", "W:55d4aa0", "I:0:none:p:1:e2",
                "L:2:1", "XD:2:1", "X:1:0", "XM:2:1", "XR:2", "Q"])),
    ]
}

fn main() {
    quiet_panics();
    let args = Args::parse();
    let mut rng = Rng::new(args.seed);
    let mut w = CaseWriter::new(&args.dir, "cluster");
    let focus_c06 = args.extra.get("focus").map(|f| f == "c06").unwrap_or(false);
    let rt = tokio::runtime::Builder::new_current_thread().enable_all().start_paused(true).build().unwrap();
    rt.block_on(async {
        let mut probes: Vec<u64> = vec![mk_probe(90_000_000), mk_probe(90_050_000)];
        if args.extra.get("focus").map(|f| f == "c05").unwrap_or(false) {
            // cut-off probes for every node id at several ages
            for node in 0..4u64 {
                for tick in [90_000_150u64, 90_900_000, 91_800_000, 93_600_000] {
                    probes.push((mk_probe(tick) & !0xFF) | node);
                }
            }
        }
        if let Some(path) = &args.replay {
            for line in std::fs::read_to_string(path).unwrap().lines() {
                let toks: Vec<&str> = line.split_whitespace().collect();
                if toks.len() < 3 || toks[0] != "cl" {
                    continue;
                }
                let n: usize = toks[1].parse().unwrap();
                let sched = strip_obs(&toks[3..]);
                run_case(&mut w, n, &probes, &sched).await;
            }
            return;
        }
        for (n, s) in named_schedules() {
            run_case(&mut w, n, &probes, &s).await;
        }
        if focus_c06 {
            // every level x every operation kind x every subset of replicas unreachable, 2..4 nodes
            for n in 2..=4usize {
                for lvl in LEVELS {
                    for kind in ["p:1:77", "P:1.71,2.72", "d:1", "D:1,2"] {
                        for mask in 0..(1u32 << (n - 1)) {
                            let mut s: Vec<String> = vec!["W:55d4a90".into(), "I:0:none:p:1:70".into(), "W:55d4a99".into()];
                            for j in 1..n {
                                if (mask >> (j - 1)) & 1 == 1 {
                                    s.push(format!("L:{}:0", j));
                                }
                            }
                            s.push(format!("I:0:{}:{}", lvl, kind));
                            // the unreachable replicas come back; the next batch must bring them the write
                            for j in 1..n {
                                if (mask >> (j - 1)) & 1 == 1 {
                                    s.push(format!("L:{}:1", j));
                                }
                            }
                            s.push("T".into());
                            s.push("Q".into());
                            run_case(&mut w, n, &probes, &s).await;
                        }
                    }
                }
            }
        }
        if args.extra.get("focus").map(|f| f == "c05").unwrap_or(false) {
            let n_wide = if args.thorough() { 20_000 } else { 2_500 };
            for _ in 0..n_wide {
                let n = 2 + rng.below(2) as usize;
                let s = random_wide_schedule(&mut rng, n);
                run_case(&mut w, n, &probes, &s).await;
            }
            return;
        }
        let n_dist = if args.thorough() { 6_000 } else { 600 };
        for _ in 0..n_dist {
            let n = 2 + rng.below(3) as usize;
            let s = random_distributor_schedule(&mut rng, n);
            run_case(&mut w, n, &probes, &s).await;
        }
        let n_random = if args.thorough() { 30_000 } else { 3_000 };
        for _ in 0..n_random {
            let n = 2 + rng.below(3) as usize;
            let s = random_schedule(&mut rng, n, focus_c06);
            run_case(&mut w, n, &probes, &s).await;
        }
    });
    datacake_crdt::verif::clear_wall_clock();
    w.finish(&[]);
}

fn mk_probe(tick: u64) -> u64 {
    ((tick / 250) << 32) | ((tick % 250) << 24) | 1
}
