//! hx-tsdiff: implementation executor for the poller's sync plan (C01).
//!
//!   tsd <recorded> <reported>    each side `-` or name=stamp,name=stamp,... (hex stamps)
//!
//! `recorded` is written into the REAL `KeyspaceTracker` of the repair poller the way the
//! poller does it (one `set_keyspace` per keyspace after a successful exchange, through the
//! verif hook `RepairTracker::record`), `reported` is what a peer's `PollKeyspace` reply
//! carries; the result is what `KeyspaceTracker::get_diff` (= `KeyspaceTimestamps::diff`)
//! lists - the keyspaces the poller synchronises - sorted.  Other nodes' entries are present in
//! the tracker and must not matter.
//!
//!   trk op op ...                a script on one tracker: r<node>:<name>=<stamp> (a completed
//!                                exchange is recorded), l<node> (the node left: the poller's
//!                                `remove_node`), p<node>:<side> (the plan for what that node
//!                                reports).  Result: the plans, ` | `-separated.
//!
//! Oracle (independent of the model): a keyspace is listed exactly when the two sides disagree
//! about it (different stamps, or known to one side only), and never twice.

use std::collections::BTreeMap;

use datacake_crdt::HLCTimestamp;
use datacake_eventual_consistency::verif::RepairTracker;
use hxcommon::{no_panic, quiet_panics, Args, CaseWriter, Rng};

type Side = Vec<(String, u64)>;

fn show_side(s: &Side) -> String {
    if s.is_empty() {
        "-".to_string()
    } else {
        s.iter().map(|(k, t)| format!("{}={:x}", k, t)).collect::<Vec<_>>().join(",")
    }
}

fn parse_side(s: &str) -> Option<Side> {
    if s == "-" {
        return Some(Vec::new());
    }
    let mut out = Vec::new();
    for it in s.split(',') {
        let (k, t) = it.split_once('=')?;
        if k.len() != 1 || out.iter().any(|(n, _): &(String, u64)| n == k) {
            return None;
        }
        out.push((k.to_string(), u64::from_str_radix(t, 16).ok()?));
    }
    Some(out)
}

fn plan(recorded: &Side, reported: &Side, noise: bool) -> Vec<String> {
    let mut tracker = RepairTracker::default();
    if noise {
        // another peer's bookkeeping, and an entry of this peer that is recorded twice
        tracker.record(9, "a".to_string(), HLCTimestamp::from_u64(77));
        tracker.record(9, "z".to_string(), HLCTimestamp::from_u64(78));
        if let Some((k, _)) = recorded.first() {
            tracker.record(1, k.clone(), HLCTimestamp::from_u64(0xdead));
        }
    }
    for (k, t) in recorded {
        tracker.record(1, k.clone(), HLCTimestamp::from_u64(*t));
    }
    let rep: BTreeMap<String, HLCTimestamp> =
        reported.iter().map(|(k, t)| (k.clone(), HLCTimestamp::from_u64(*t))).collect();
    tracker.plan(1, &rep)
}

fn do_case(w: &mut CaseWriter, recorded: &Side, reported: &Side, noise: bool) {
    let case = format!("tsd {} {}", show_side(recorded), show_side(reported));
    let (a, b) = (recorded.clone(), reported.clone());
    let got = match no_panic(move || plan(&a, &b, noise)) {
        None => {
            w.case(&case, "panic");
            w.fail("panic", &case, "");
            return;
        },
        Some(g) => g,
    };
    let mut sorted = got.clone();
    sorted.sort();
    let shown = if sorted.is_empty() { "-".to_string() } else { sorted.join(",") };
    w.case(&case, &shown);
    // oracle
    let mut dedup = sorted.clone();
    dedup.dedup();
    if dedup.len() != sorted.len() {
        w.fail("keyspace-listed-twice", &case, &shown);
    }
    let m: BTreeMap<&str, u64> = recorded.iter().map(|(k, t)| (k.as_str(), *t)).collect();
    let o: BTreeMap<&str, u64> = reported.iter().map(|(k, t)| (k.as_str(), *t)).collect();
    let mut names: Vec<&str> = m.keys().chain(o.keys()).copied().collect();
    names.sort();
    names.dedup();
    for k in names {
        let differs = m.get(k) != o.get(k);
        let listed = dedup.iter().any(|n| n == k);
        if differs && !listed {
            w.fail("changed-keyspace-not-in-the-sync-plan", &case, &format!("{k}: plan {shown}"));
        } else if !differs && listed {
            w.fail("unchanged-keyspace-in-the-sync-plan", &case, &format!("{k}: plan {shown}"));
        }
    }
    w.stats.hit(match (sorted.is_empty(), noise) {
        (true, _) => "nothing_to_sync",
        (false, false) => "plan_nonempty",
        (false, true) => "plan_nonempty_with_other_peers_recorded",
    });
}

#[derive(Clone, Debug)]
enum TOp {
    Record(u8, String, u64),
    Left(u8),
    Plan(u8, Side),
}

fn show_op(o: &TOp) -> String {
    match o {
        TOp::Record(n, k, t) => format!("r{}:{}={:x}", n, k, t),
        TOp::Left(n) => format!("l{}", n),
        TOp::Plan(n, s) => format!("p{}:{}", n, show_side(s)),
    }
}

fn parse_op(s: &str) -> Option<TOp> {
    let (h, body) = s.split_at(1);
    match h {
        "r" => {
            let (n, it) = body.split_once(':')?;
            let side = parse_side(it)?;
            let (k, t) = side.first()?.clone();
            Some(TOp::Record(n.parse().ok()?, k, t))
        },
        "l" => Some(TOp::Left(body.parse().ok()?)),
        "p" => {
            let (n, sd) = body.split_once(':')?;
            Some(TOp::Plan(n.parse().ok()?, parse_side(sd)?))
        },
        _ => None,
    }
}

fn do_script(w: &mut CaseWriter, ops: &[TOp]) {
    let case = format!("trk {}", ops.iter().map(show_op).collect::<Vec<_>>().join(" "));
    let script = ops.to_vec();
    let out = no_panic(move || {
        let mut tracker = RepairTracker::default();
        // the oracle's own bookkeeping: node -> keyspace -> stamp
        let mut book: BTreeMap<u8, BTreeMap<String, u64>> = BTreeMap::new();
        let mut plans = Vec::new();
        let mut bad = Vec::new();
        for op in &script {
            match op {
                TOp::Record(n, k, t) => {
                    tracker.record(*n, k.clone(), HLCTimestamp::from_u64(*t));
                    book.entry(*n).or_default().insert(k.clone(), *t);
                },
                TOp::Left(n) => {
                    tracker.forget_node(*n);
                    book.remove(n);
                },
                TOp::Plan(n, side) => {
                    let rep: BTreeMap<String, HLCTimestamp> =
                        side.iter().map(|(k, t)| (k.clone(), HLCTimestamp::from_u64(*t))).collect();
                    let mut got = tracker.plan(*n, &rep);
                    got.sort();
                    let empty = BTreeMap::new();
                    let mine = book.get(n).unwrap_or(&empty);
                    let mut want: Vec<String> = Vec::new();
                    for (k, t) in side {
                        if mine.get(k) != Some(t) {
                            want.push(k.clone());
                        }
                    }
                    for k in mine.keys() {
                        if !side.iter().any(|(n, _)| n == k) {
                            want.push(k.clone());
                        }
                    }
                    want.sort();
                    if got != want {
                        bad.push(format!("plan for node {} is {:?}, the keyspaces that differ are {:?}", n, got, want));
                    }
                    plans.push(if got.is_empty() { "-".to_string() } else { got.join(",") });
                },
            }
        }
        (plans.join(" | "), bad)
    });
    match out {
        None => {
            w.case(&case, "panic");
            w.fail("panic", &case, "");
        },
        Some((shown, bad)) => {
            w.case(&case, &shown);
            if let Some(b) = bad.first() {
                w.fail("sync-plan-is-not-the-changed-keyspaces", &case, b);
            }
            w.stats.hit("tracker_scripts");
        },
    }
}

fn random_script(rng: &mut Rng) -> Vec<TOp> {
    let names = ["a", "b", "c"];
    let mut ops = Vec::new();
    let len = 3 + rng.below(10);
    for _ in 0..len {
        let node = 1 + rng.below(3) as u8;
        match rng.below(6) {
            0..=2 => ops.push(TOp::Record(node, names[rng.below(3) as usize].to_string(), 0x10 + rng.below(3))),
            3 => ops.push(TOp::Left(node)),
            _ => {
                let mut side = Vec::new();
                for n in names {
                    if rng.chance(2, 3) {
                        side.push((n.to_string(), 0x10 + rng.below(3)));
                    }
                }
                ops.push(TOp::Plan(node, side));
            },
        }
    }
    let mut side = Vec::new();
    for n in names {
        side.push((n.to_string(), 0x10 + rng.below(3)));
    }
    for node in 1..=3u8 {
        ops.push(TOp::Plan(node, side.clone()));
    }
    ops
}

fn main() {
    quiet_panics();
    let args = Args::parse();
    let mut rng = Rng::new(args.seed);
    let mut w = CaseWriter::new(&args.dir, "tsdiff");

    if let Some(path) = &args.replay {
        for line in std::fs::read_to_string(path).unwrap().lines() {
            let t: Vec<&str> = line.split_whitespace().collect();
            if let ["tsd", a, b] = t.as_slice() {
                if let (Some(a), Some(b)) = (parse_side(a), parse_side(b)) {
                    do_case(&mut w, &a, &b, false);
                    do_case(&mut w, &a, &b, true);
                }
            } else if let ["trk", rest @ ..] = t.as_slice() {
                let ops: Option<Vec<TOp>> = rest.iter().map(|o| parse_op(o)).collect();
                if let Some(ops) = ops {
                    do_script(&mut w, &ops);
                }
            }
        }
        w.finish(&[]);
        return;
    }

    // exhaustive: four keyspaces, each absent or at one of three stamps, on both sides (4^8)
    let names = ["a", "b", "c", "d"];
    let stamps = [0u64, 0x5dc0000000001, 0x5dc0000000002, 0x5dc0000000101];
    let mut exhaustive = 0u64;
    for code in 0..(4u32.pow(8)) {
        let mut c = code;
        let mut rec = Vec::new();
        let mut rep = Vec::new();
        for side in 0..2 {
            for n in names {
                let v = (c % 4) as usize;
                c /= 4;
                if v > 0 {
                    let e = (n.to_string(), stamps[v]);
                    if side == 0 { rec.push(e) } else { rep.push(e) }
                }
            }
        }
        do_case(&mut w, &rec, &rep, code % 3 == 0);
        exhaustive += 1;
    }
    // random: up to 12 keyspaces, stamps incl. 0 and u64::MAX, mostly equal on both sides
    let letters: Vec<String> = ('e'..='p').map(|c| c.to_string()).collect();
    let n_random = if args.thorough() { 200_000 } else { 20_000 };
    for i in 0..n_random {
        let k = 1 + rng.below(12) as usize;
        let mut rec = Vec::new();
        let mut rep = Vec::new();
        for n in letters.iter().take(k) {
            let t = match rng.below(6) {
                0 => 0,
                1 => u64::MAX,
                _ => 0x5dc0000000000 + rng.below(5),
            };
            match rng.below(8) {
                0 => rec.push((n.clone(), t)),
                1 => rep.push((n.clone(), t)),
                2 => {
                    rec.push((n.clone(), t));
                    rep.push((n.clone(), t ^ (1 << rng.below(64))));
                },
                _ => {
                    rec.push((n.clone(), t));
                    rep.push((n.clone(), t));
                },
            }
        }
        // the order in which the poller recorded the keyspaces does not matter
        if rng.chance(1, 2) {
            rec.reverse();
        }
        do_case(&mut w, &rec, &rep, i % 2 == 0);
    }
    // tracker scripts over three peers: recordings, departures, plans
    let n_scripts = if args.thorough() { 100_000 } else { 10_000 };
    for _ in 0..n_scripts {
        let ops = random_script(&mut rng);
        do_script(&mut w, &ops);
    }
    w.finish(&[("exhaustive_cases", exhaustive.to_string()), ("random_cases", n_random.to_string())]);
}
