//! hx-clock: implementation executor for C11 (the node clock under concurrent callers).
//!
//!   seq <node> <wall0> ev...     one task, deterministic: ev = g:<wall> | r:<wall>:<stamp> |
//!                                x:<wall> (a caller that gives up: the request is queued, the
//!                                future is dropped before the reply; the stamp is lost)
//!                                (exact comparison with the model's clock actor)
//!   conc <rt> <node> <k> <m> <wall>   k tasks x m get_time calls on a stalled wall clock,
//!                                rt = ct (current-thread) | mt (4 worker threads); the set
//!                                of replies must be exactly the model's (and the oracle:
//!                                pairwise distinct, each task's own results increasing)
//!   mix  <rt> <node> <k> <m> <wall> <seed>   k tasks mixing get_time and register_ts of
//!                                remote stamps (oracle only: distinct, per-task increasing,
//!                                greater than every stamp the task registered before)

use std::time::Duration;

use datacake_crdt::HLCTimestamp;
use datacake_node::Clock;
use hxcommon::{quiet_panics, Args, CaseWriter, Rng};

const DRIFT: u64 = 4100 * 250;

fn mk(tick: u64, cnt: u64, node: u64) -> u64 {
    ((tick / 250) << 32) | ((tick % 250) << 24) | (cnt << 8) | node
}
fn tick_of(v: u64) -> u64 {
    (v >> 32) * 250 + ((v >> 24) & 0xFF)
}
fn set_wall(tick: u64) {
    datacake_crdt::verif::set_wall_clock(Duration::from_millis(tick * 4));
}
fn hx(s: &str) -> u64 {
    u64::from_str_radix(s, 16).unwrap()
}

fn rt(kind: &str) -> tokio::runtime::Runtime {
    match kind {
        "ct" => tokio::runtime::Builder::new_current_thread().enable_all().build().unwrap(),
        _ => tokio::runtime::Builder::new_multi_thread().worker_threads(4).enable_all().build().unwrap(),
    }
}

fn run_seq(w: &mut CaseWriter, node: u64, wall0: u64, evs: &[String]) {
    let case = format!("seq {:x} {:x} {}", node, wall0, evs.join(" "));
    let r = rt("ct");
    let out: Vec<String> = r.block_on(async {
        set_wall(wall0);
        let clock = Clock::new(node as u8);
        let mut out = Vec::new();
        let mut hot = false; // the clock's counter may be in the back-pressure range
        let mut cancelled = 0u64;
        for e in evs {
            let p: Vec<&str> = e.split(':').collect();
            match p.as_slice() {
                ["g", wl] => {
                    set_wall(hx(wl));
                    let c = clock.clone();
                    // the actor dying surfaces as a panic of the caller
                    match tokio::spawn(async move { c.get_time().await }).await {
                        Ok(t) => {
                            hot = t.counter() >= 60_000;
                            out.push(format!("{:x}", t.as_u64()))
                        },
                        Err(_) => {
                            out.push("panic".into());
                            break;
                        },
                    }
                },
                ["x", wl] => {
                    set_wall(hx(wl));
                    let c = clock.clone();
                    let mut fut = Box::pin(async move { c.get_time().await });
                    let waker = futures::task::noop_waker();
                    let mut cx = std::task::Context::from_waker(&waker);
                    // one poll queues the request; then the caller goes away
                    // (a dead actor surfaces as a panic of the caller, here as for `g`)
                    let first = match std::panic::catch_unwind(std::panic::AssertUnwindSafe(|| {
                        std::future::Future::poll(fut.as_mut(), &mut cx).is_pending()
                    })) {
                        Ok(p) => p,
                        Err(_) => {
                            out.push("panic".into());
                            break;
                        },
                    };
                    drop(fut);
                    // let the actor handle the request under THIS wall clock reading: nothing tells us
                    // when it has, so wait longer than its longest pause (1 ms of back-pressure)
                    cancelled += 1;
                    tokio::time::sleep(Duration::from_millis(if hot { 8 } else { 3 })).await;
                    out.push(if first { "x".into() } else { "x-ready".into() });
                },
                ["r", wl, ts] => {
                    set_wall(hx(wl));
                    let c = clock.clone();
                    let t = HLCTimestamp::from_u64(hx(ts));
                    if tokio::spawn(async move { c.register_ts(t).await }).await.is_err() {
                        out.push("panic".into());
                        break;
                    }
                    // register_ts returns once the request is queued: let the actor process it
                    // under THIS wall clock reading before the next event changes it
                    for _ in 0..8 {
                        tokio::task::yield_now().await;
                    }
                    if ((hx(ts) >> 8) & 0xFFFF) >= 65_000 {
                        hot = true;
                    }
                    if hot {
                        // near the counter limit the actor sleeps 1 ms (back-pressure) after the request
                        tokio::time::sleep(Duration::from_millis(8)).await;
                    }
                    out.push("-".into());
                },
                _ => out.push("?".into()),
            }
        }
        out
    });
    w.case(&case, &out.join(" "));
    // oracle: replies strictly increase; a reply after an accepted register exceeds it
    let mut last: Option<u64> = None;
    let mut regs: Vec<u64> = Vec::new();
    for (e, o) in evs.iter().zip(out.iter()) {
        if let Some(ts) = e.strip_prefix("r:") {
            let f: Vec<&str> = ts.split(':').collect();
            let (wl, t) = (hx(f[0]), hx(f[1]));
            let cur = last.map(tick_of).unwrap_or(wall0);
            // accepted for sure: other node, within drift, and no counter overflow possible
            let cnt_ok = ((t >> 8) & 0xFFFF) < 65000 && last.map(|l| ((l >> 8) & 0xFFFF) < 65000).unwrap_or(true);
            if (t & 0xFF) != node && tick_of(t) <= wl + DRIFT && cur.max(tick_of(t)) <= wl + DRIFT && cnt_ok {
                regs.push(t);
            }
        } else if o != "panic" && o != "?" && !o.starts_with('x') {
            let v = hx(o);
            if let Some(l) = last {
                if HLCTimestamp::from_u64(l) >= HLCTimestamp::from_u64(v) {
                    w.fail("stamp-not-increasing", &case, &format!("{:x} then {:x}", l, v));
                }
            }
            for r in &regs {
                if HLCTimestamp::from_u64(*r) >= HLCTimestamp::from_u64(v) {
                    w.fail("stamp-not-after-registered", &case, &format!("registered {:x}, got {:x}", r, v));
                }
            }
            last = Some(v);
        }
    }
}

fn run_conc(w: &mut CaseWriter, kind: &str, node: u64, k: usize, m: usize, wall: u64) {
    let case = format!("conc {} {:x} {:x} {:x} {:x}", kind, node, k, m, wall);
    let r = rt(kind);
    let per_task: Vec<Vec<u64>> = r.block_on(async {
        set_wall(wall);
        let clock = Clock::new(node as u8);
        let mut hs = Vec::new();
        for _ in 0..k {
            let c = clock.clone();
            hs.push(tokio::spawn(async move {
                let mut v = Vec::with_capacity(m);
                for i in 0..m {
                    v.push(c.get_time().await.as_u64());
                    if i % 7 == 3 {
                        tokio::task::yield_now().await;
                    }
                }
                v
            }));
        }
        let mut res = Vec::new();
        for h in hs {
            res.push(h.await.unwrap_or_default());
        }
        res
    });
    let mut all: Vec<u64> = per_task.iter().flatten().cloned().collect();
    all.sort_by_key(|v| HLCTimestamp::from_u64(*v));
    let txt: Vec<String> = all.iter().map(|v| format!("{:x}", v)).collect();
    w.case(&case, &txt.join(" "));
    let mut d = all.clone();
    d.dedup();
    if d.len() != all.len() || all.len() != k * m {
        w.fail("duplicate-or-missing-stamps", &case, &format!("{} replies, {} distinct, expected {}", all.len(), d.len(), k * m));
    }
    for (t, v) in per_task.iter().enumerate() {
        if v.windows(2).any(|p| HLCTimestamp::from_u64(p[0]) >= HLCTimestamp::from_u64(p[1])) {
            w.fail("task-sees-regressing-stamps", &case, &format!("task {t}"));
        }
    }
    w.stats.add("concurrent_replies", all.len() as u64);
}

fn run_mix(w: &mut CaseWriter, kind: &str, node: u64, k: usize, m: usize, wall: u64, seed: u64) {
    let case = format!("mix {} {:x} {:x} {:x} {:x} {:x}", kind, node, k, m, wall, seed);
    let r = rt(kind);
    // per task: (is_register, stamp) in program order
    let logs: Vec<Vec<(bool, u64)>> = r.block_on(async {
        set_wall(wall);
        let clock = Clock::new(node as u8);
        let mut hs = Vec::new();
        for t in 0..k {
            let c = clock.clone();
            let mut rng = Rng::new(seed * 1000 + t as u64);
            hs.push(tokio::spawn(async move {
                let mut v = Vec::new();
                for _ in 0..m {
                    if rng.chance(1, 5) {
                        // a remote stamp up to ~100 s ahead, from another node
                        let r = mk(wall + rng.below(25_000), rng.below(3), (node + 1 + rng.below(200)) % 256);
                        c.register_ts(HLCTimestamp::from_u64(r)).await;
                        v.push((true, r));
                    } else {
                        v.push((false, c.get_time().await.as_u64()));
                    }
                    if rng.chance(1, 4) {
                        tokio::task::yield_now().await;
                    }
                }
                v
            }));
        }
        let mut res = Vec::new();
        for h in hs {
            res.push(h.await.unwrap_or_default());
        }
        res
    });
    let mut all: Vec<u64> = logs.iter().flatten().filter(|x| !x.0).map(|x| x.1).collect();
    let n = all.len();
    all.sort();
    all.dedup();
    w.case(&case, "mix"); // the model is not asked to predict an unknown interleaving
    if all.len() != n {
        w.fail("duplicate-or-missing-stamps", &case, "");
    }
    for (t, v) in logs.iter().enumerate() {
        let mut last: Option<u64> = None;
        let mut regs: Vec<u64> = Vec::new();
        for (is_reg, s) in v {
            if *is_reg {
                if (*s & 0xFF) != node {
                    regs.push(*s);
                }
            } else {
                if let Some(l) = last {
                    if HLCTimestamp::from_u64(l) >= HLCTimestamp::from_u64(*s) {
                        w.fail("task-sees-regressing-stamps", &case, &format!("task {t}"));
                    }
                }
                for r in &regs {
                    if HLCTimestamp::from_u64(*r) >= HLCTimestamp::from_u64(*s) {
                        w.fail("stamp-not-after-registered", &case, &format!("task {t}: registered {:x}, then got {:x}", r, s));
                    }
                }
                last = Some(*s);
            }
        }
    }
    w.stats.add("mixed_replies", n as u64);
}

fn main() {
    quiet_panics();
    let args = Args::parse();
    let mut rng = Rng::new(args.seed);
    let mut w = CaseWriter::new(&args.dir, "clock");
    if let Some(path) = &args.replay {
        for line in std::fs::read_to_string(path).unwrap().lines() {
            let t: Vec<&str> = line.split_whitespace().collect();
            match t.as_slice() {
                ["seq", node, wall0, evs @ ..] => run_seq(&mut w, hx(node), hx(wall0), &evs.iter().map(|s| s.to_string()).collect::<Vec<_>>()),
                ["conc", kind, node, k, m, wall] => run_conc(&mut w, kind, hx(node), hx(k) as usize, hx(m) as usize, hx(wall)),
                ["mix", kind, node, k, m, wall, seed] => run_mix(&mut w, kind, hx(node), hx(k) as usize, hx(m) as usize, hx(wall), hx(seed)),
                _ => {},
            }
        }
        datacake_crdt::verif::clear_wall_clock();
        w.finish(&[]);
        return;
    }
    // sequential, exact: random event sequences with stalled/backward/forward walls and remote
    // stamps around the drift boundary and on the same tick
    let n_seq = if args.thorough() { 20_000 } else { 2_500 };
    for i in 0..n_seq {
        // every third history has callers that give up between request and reply
        let with_cancel = i % 3 == 2;
        let node = rng.below(256);
        let wall0 = 1_000_000 + rng.below(1_000_000_000);
        let mut wall = wall0;
        let len = 1 + rng.below(40) as usize;
        let mut evs = Vec::new();
        for _ in 0..len {
            wall = match rng.below(8) {
                0 => wall.saturating_sub(rng.below(2_000_000)),
                1 | 2 | 3 => wall,
                _ => wall + rng.below(3),
            };
            if with_cancel && rng.chance(1, 6) {
                evs.push(format!("x:{:x}", wall));
            } else if rng.chance(3, 4) {
                evs.push(format!("g:{:x}", wall));
            } else {
                let dt: i64 = match rng.below(6) {
                    0 => DRIFT as i64,
                    1 => DRIFT as i64 + 1,
                    2 => -(rng.below(1000) as i64),
                    _ => rng.below(3) as i64,
                };
                let t = (wall as i64 + dt).max(0) as u64;
                let rn = if rng.chance(1, 8) { node } else { rng.below(256) };
                evs.push(format!("r:{:x}:{:x}", wall, mk(t, *rng.pick(&[0u64, 1, 5, 0, 3, 7, 2, 9, 65534, 65535, 65520, 65526, 65531]), rn)));
            }
        }
        run_seq(&mut w, node, wall0, &evs);
    }
    // concurrent on a stalled wall clock
    let reps = if args.thorough() { 40 } else { 6 };
    for kind in ["ct", "mt"] {
        for &(k, m) in &[(2usize, 200usize), (4, 200), (8, 200), (8, 1000)] {
            for r in 0..reps {
                run_conc(&mut w, kind, 1 + r as u64, k, m, 5_000_000 + r as u64 * 17);
            }
        }
    }
    // a backlog: more callers than the actor's queue holds (flume::bounded(1000)) - a caller whose
    // request does not fit must wait for room, not lose the request
    for kind in ["ct", "mt"] {
        for r in 0..(if args.thorough() { 6 } else { 2 }) {
            run_mix(&mut w, kind, 3, 1500 + 300 * r as usize, 3, 7_500_000 + r as u64, rng.next() % 100_000);
            w.stats.hit("mix_backlog_over_queue_capacity");
        }
    }
    for kind in ["ct", "mt"] {
        for &(k, m) in &[(2usize, 100usize), (4, 200), (8, 300)] {
            for r in 0..reps {
                run_mix(&mut w, kind, 3, k, m, 7_000_000 + r as u64, rng.next() % 100_000);
            }
        }
    }
    datacake_crdt::verif::clear_wall_clock();
    w.finish(&[]);
}
