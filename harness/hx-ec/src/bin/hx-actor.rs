//! hx-actor: implementation executor for C02 (set and storage never disagree) and C07
//! (restart rebuilds exactly what storage holds).
//!
//! One case = a request history against ONE real `KeyspaceActor` (through
//! `KeyspaceGroup::get_or_create_keyspace`, `verif-hooks` re-exports) on a fault-injecting
//! store.  Tokens:
//!   s:<src>:<k>:<t>:<p>:<o>        Set            o = k (storage ok) | f (storage fails)
//!   d:<src>:<k>:<t>:<o>            Del
//!   S:<src>:<o>:<k.t.p,...>        MultiSet       o = k | f | m<mask bits>
//!   D:<src>:<o>:<k.t,...>          MultiDel
//!   P:<o>                          PurgeDeletes
//!   R                              stop the node, start a new one on the same store
//!   C<request token>               kill the node after the request's storage write, restart
//! After every token the reply and the observable state (set as a peer would fetch it,
//! store metadata and documents) are printed.

use std::sync::Arc;
use std::time::Duration;

use datacake_eventual_consistency::verif::*;
use datacake_node::Clock;
use hx_ec::*;
use hxcommon::{quiet_panics, Args, CaseWriter, Rng};

const W_TICKS: u64 = 3600 * 250;

fn mk(tick: u64, cnt: u64, node: u64) -> u64 {
    ((tick / 250) << 32) | ((tick % 250) << 24) | (cnt << 8) | node
}

fn hx(s: &str) -> u64 {
    u64::from_str_radix(s, 16).unwrap()
}

fn parse_plan(o: &str) -> Plan {
    match o {
        "k" => Plan::Ok,
        "f" => Plan::Fail,
        _ => Plan::Partial(o[1..].chars().map(|c| c == '1').collect()),
    }
}

async fn new_group(store: &Arc<Faulty>) -> KeyspaceGroup<Faulty> {
    let group = KeyspaceGroup::new(store.clone(), Clock::new(0)).await;
    group.load_states_from_storage().await.expect("load states");
    group
}

/// Sends one request token; returns the reply text ("ok"/"err"/"hung").
async fn send_token(group: &KeyspaceGroup<Faulty>, store: &Arc<Faulty>, tok: &str, park: bool) -> String {
    let p: Vec<&str> = tok.split(':').collect();
    let ks = group.get_or_create_keyspace(KS).await;
    let plan_of = |o: &str| if park { Plan::Park } else { parse_plan(o) };
    macro_rules! go {
        ($fut:expr) => {{
            if park {
                match tokio::time::timeout(Duration::from_millis(200), $fut).await {
                    Err(_) => "hung".to_string(),
                    Ok(r) => if r.is_ok() { "ok".to_string() } else { "err".to_string() },
                }
            } else {
                let r = $fut.await;
                if r.is_ok() { "ok".to_string() } else { "err".to_string() }
            }
        }};
    }
    match p.as_slice() {
        ["s", src, k, t, pl, o] => {
            store.set_plan(plan_of(o));
            go!(ks.send(msg_set::<Faulty>(src.parse().unwrap(), mk_doc(hx(k), hx(t), hx(pl)))))
        },
        ["d", src, k, t, o] => {
            store.set_plan(plan_of(o));
            go!(ks.send(msg_del::<Faulty>(src.parse().unwrap(), mk_meta(hx(k), hx(t)))))
        },
        ["S", src, o, items] => {
            store.set_plan(plan_of(o));
            let ds = items
                .split(',')
                .filter(|s| !s.is_empty())
                .map(|it| {
                    let f: Vec<&str> = it.split('.').collect();
                    mk_doc(hx(f[0]), hx(f[1]), hx(f[2]))
                })
                .collect();
            go!(ks.send(msg_multi_set::<Faulty>(src.parse().unwrap(), ds)))
        },
        ["D", src, o, items] => {
            store.set_plan(plan_of(o));
            let ms = items
                .split(',')
                .filter(|s| !s.is_empty())
                .map(|it| {
                    let f: Vec<&str> = it.split('.').collect();
                    mk_meta(hx(f[0]), hx(f[1]))
                })
                .collect();
            go!(ks.send(msg_multi_del::<Faulty>(src.parse().unwrap(), ms)))
        },
        ["P", o] => {
            store.set_plan(plan_of(o));
            go!(ks.send(msg_purge::<Faulty>()))
        },
        _ => "?tok".to_string(),
    }
}

/// Parses `E[..]D[..]` and `M[..]` out of a dump and evaluates C02's predicate.
fn agree(set: &Set2, meta: &[(u64, u64, bool)]) -> Option<String> {
    let (e, d) = set_contents(set);
    let mut want: Vec<(u64, u64, bool)> = e.iter().map(|(k, t)| (*k, *t, false)).collect();
    want.extend(d.iter().map(|(k, t)| (*k, *t, true)));
    want.sort();
    let mut have = meta.to_vec();
    have.sort();
    if want != have {
        Some(format!("set={:?} storage={:?}", want, have))
    } else {
        None
    }
}

async fn run_case(w: &mut CaseWriter, probes: &[u64], toks: &[String]) {
    let pv: Vec<String> = probes.iter().map(|t| format!("{:x}", t)).collect();
    let case = format!("act probes={} {}", pv.join(","), toks.join(" "));
    let store = Arc::new(Faulty::default());
    let mut group = new_group(&store).await;
    let mut out: Vec<String> = Vec::new();
    let mut fails: Vec<(String, String)> = Vec::new();
    for (i, tok) in toks.iter().enumerate() {
        let reply;
        let mut restarted = false;
        if tok == "R" {
            group = new_group(&store).await;
            reply = "restart".to_string();
            restarted = true;
        } else if let Some(inner) = tok.strip_prefix('C') {
            let r = send_token(&group, &store, inner, true).await;
            store.set_plan(Plan::Ok);
            group = new_group(&store).await;
            reply = format!("crash-{}", r);
            restarted = true;
            w.stats.hit(&format!("crash_{}", r));
        } else {
            reply = send_token(&group, &store, tok, false).await;
            store.set_plan(Plan::Ok);
            w.stats.hit(&format!("reply_{}", reply));
        }
        let set = actor_set(&group, KS).await;
        let st = show_store(&*store, KS).await;
        out.push(format!("{} {} {}", reply, show_set(&set, probes), st));
        // ---- oracle: C02 after every request, C07 after every restart ----
        let meta: Vec<(u64, u64, bool)> = store
            .inner
            .iter_metadata_sync(KS);
        if let Some(detail) = agree(&set, &meta) {
            let class = if restarted { "rebuilt-set-differs-from-storage" } else { "set-and-storage-disagree" };
            fails.push((class.to_string(), format!("after token {} ({}): {}", i, tok, detail)));
        }
        if st.contains("=missing") {
            fails.push(("live-metadata-without-document".to_string(), format!("after token {}: {}", i, st)));
        }
    }
    w.case(&case, &out.join(" | "));
    let mut seen = std::collections::BTreeSet::new();
    for (class, detail) in fails {
        if seen.insert(class.clone()) {
            w.fail(&class, &case, &detail);
        }
    }
}

trait MetaSync {
    fn iter_metadata_sync(&self, ks: &str) -> Vec<(u64, u64, bool)>;
}
impl MetaSync for datacake_eventual_consistency::test_utils::MemStore {
    fn iter_metadata_sync(&self, ks: &str) -> Vec<(u64, u64, bool)> {
        use datacake_eventual_consistency::Storage;
        // MemStore's futures complete immediately: poll once with a noop waker
        let fut = self.iter_metadata(ks);
        let mut fut = Box::pin(fut);
        let waker = futures::task::noop_waker();
        let mut cx = std::task::Context::from_waker(&waker);
        match fut.as_mut().poll(&mut cx) {
            std::task::Poll::Ready(Ok(it)) => it.map(|(k, t, d)| (k, t.as_u64(), d)).collect(),
            _ => Vec::new(),
        }
    }
}
use std::future::Future;

#[derive(Clone)]
struct Item {
    k: u64,
    t: u64,
    p: u64,
}

fn single_tokens(keys: &[u64], stamps: &[u64], outcomes: &[&str]) -> Vec<String> {
    let mut v = Vec::new();
    let mut p = 0x10u64;
    for src in 0..2 {
        for &k in keys {
            for &t in stamps {
                for o in outcomes {
                    p += 1;
                    v.push(format!("s:{}:{:x}:{:x}:{:x}:{}", src, k, t, p, o));
                    v.push(format!("d:{}:{:x}:{:x}:{}", src, k, t, o));
                }
            }
        }
    }
    v
}

fn bulk_tokens(keys: &[u64], stamps: &[u64], outcomes: &[&str]) -> Vec<String> {
    let mut items = Vec::new();
    let mut p = 0x100u64;
    for &k in keys {
        for &t in stamps {
            p += 1;
            items.push(Item { k, t, p });
        }
    }
    let mut v = Vec::new();
    for src in 0..2 {
        for a in &items {
            for b in &items {
                for o in outcomes {
                    v.push(format!("S:{}:{}:{:x}.{:x}.{:x},{:x}.{:x}.{:x}", src, o, a.k, a.t, a.p, b.k, b.t, b.p + 0x1000));
                    v.push(format!("D:{}:{}:{:x}.{:x},{:x}.{:x}", src, o, a.k, a.t, b.k, b.t));
                }
            }
        }
    }
    v
}

fn random_history(rng: &mut Rng, base: u64, probes: &mut Vec<u64>, restart_heavy: bool) -> Vec<String> {
    let keys = [1u64, 2, 3, (1 << 63) + 5, 0];
    let spread = *rng.pick(&[6u64, 40, W_TICKS - 1, W_TICKS + 2, 3 * W_TICKS]);
    let len = 1 + rng.below(12) as usize;
    let mut toks = Vec::new();
    let mut used: Vec<u64> = Vec::new();
    let mut stamp = |rng: &mut Rng, used: &mut Vec<u64>| {
        let t = if !used.is_empty() && rng.chance(1, 6) {
            *rng.pick(used) // a repeated stamp (duplicate delivery)
        } else {
            mk(base + rng.below(spread), rng.below(2), 1 + rng.below(3))
        };
        used.push(t);
        t
    };
    let mut payload = 0x5000u64 + rng.below(1000) * 16;
    for _ in 0..len {
        payload += 1;
        let src = rng.below(2);
        let single_o = if rng.chance(1, 6) { "f" } else { "k" };
        let tok = match rng.below(12) {
            0 | 1 | 2 => format!("s:{}:{:x}:{:x}:{:x}:{}", src, rng.pick(&keys), stamp(rng, &mut used), payload, single_o),
            3 | 4 => format!("d:{}:{:x}:{:x}:{}", src, rng.pick(&keys), stamp(rng, &mut used), single_o),
            5 | 6 | 7 => {
                let n = 1 + rng.below(5) as usize;
                let mut items = Vec::new();
                if rng.chance(1, 3) {
                    // what put_many sends: ONE stamp for all the (different) ids of the bulk
                    let t = stamp(rng, &mut used);
                    for (j, k) in keys.iter().take(n).enumerate() {
                        items.push(format!("{:x}.{:x}.{:x}", k, t, payload + 0x100 * j as u64));
                    }
                } else {
                for j in 0..n {
                    // duplicates of one id inside a bulk, in both stamp orders
                    let k = if j > 0 && rng.chance(1, 3) { keys[0] } else { *rng.pick(&keys) };
                    items.push(format!("{:x}.{:x}.{:x}", k, stamp(rng, &mut used), payload + 0x100 * j as u64));
                }
                }
                let n = items.len();
                let o = match rng.below(5) {
                    0 => "f".to_string(),
                    1 | 2 => format!("m{}", (0..n).map(|_| if rng.chance(1, 2) { '1' } else { '0' }).collect::<String>()),
                    _ => "k".to_string(),
                };
                format!("S:{}:{}:{}", src, o, items.join(","))
            },
            8 | 9 => {
                let n = 1 + rng.below(4) as usize;
                let mut items = Vec::new();
                if rng.chance(1, 3) {
                    // what del_many sends: one stamp for all its ids
                    let t = stamp(rng, &mut used);
                    for k in keys.iter().take(n) {
                        items.push(format!("{:x}.{:x}", k, t));
                    }
                } else {
                for j in 0..n {
                    let k = if j > 0 && rng.chance(1, 3) { keys[0] } else { *rng.pick(&keys) };
                    items.push(format!("{:x}.{:x}", k, stamp(rng, &mut used)));
                }
                }
                let n = items.len();
                let o = match rng.below(5) {
                    0 => "f".to_string(),
                    1 | 2 => format!("m{}", (0..n).map(|_| if rng.chance(1, 2) { '1' } else { '0' }).collect::<String>()),
                    _ => "k".to_string(),
                };
                format!("D:{}:{}:{}", src, o, items.join(","))
            },
            10 => match rng.below(4) {
                0 => "P:f".to_string(),
                1 => "P:m10".to_string(),
                2 => "P:m01".to_string(),
                _ => "P:k".to_string(),
            },
            _ => "R".to_string(),
        };
        // occasionally kill the node in the middle of this request
        let storage_ok = {
            let f: Vec<&str> = tok.split(':').collect();
            match f[0] {
                "s" | "d" | "P" => *f.last().unwrap() == "k",
                "S" | "D" => f[2] == "k",
                _ => false,
            }
        };
        if storage_ok && rng.chance(if restart_heavy { 3 } else { 1 }, 10) {
            toks.push(format!("C{}", tok));
        } else {
            toks.push(tok);
            if restart_heavy && rng.chance(1, 2) {
                toks.push("R".to_string());
            }
        }
    }
    used.sort();
    used.dedup();
    used.truncate(10);
    *probes = used;
    toks
}

/// Histories in which the cut-off of an origin actually moves past earlier stamps: early
/// writes, then every origin heard again on every source more than a forgiveness period
/// later, then LATE operations (stamps between the early ones and the cut-off) on known and
/// unknown keys, as single and bulk requests, with storage faults, purges and restarts.
fn cutoff_history(rng: &mut Rng, probes: &mut Vec<u64>) -> Vec<String> {
    let keys = [1u64, 2, 3, 4];
    let b0 = *rng.pick(&[5u64, 80_000_000]);
    let norig = 1 + rng.below(2);
    let mut toks = Vec::new();
    let mut used = Vec::new();
    let mut pl = 0x9000u64 + rng.below(500) * 16;
    let o = |rng: &mut Rng| if rng.chance(1, 7) { "f" } else { "k" };
    // phase 1
    for i in 0..(1 + rng.below(4)) {
        let t = mk(b0 + i * 10, 0, 1 + rng.below(norig));
        used.push(t);
        pl += 1;
        if rng.chance(2, 3) {
            toks.push(format!("s:{}:{:x}:{:x}:{:x}:{}", rng.below(2), rng.pick(&keys), t, pl, o(rng)));
        } else {
            toks.push(format!("d:{}:{:x}:{:x}:{}", rng.below(2), rng.pick(&keys), t, o(rng)));
        }
    }
    // phase 2: the cut-off moves
    let gap = *rng.pick(&[W_TICKS + 100, W_TICKS + 100, 2 * W_TICKS, W_TICKS - 3]);
    let mut c = 0;
    for origin in 1..=norig {
        for src in 0..2 {
            if rng.chance(1, 10) { continue; }
            c += 1;
            let t = mk(b0 + gap + c, 0, origin);
            used.push(t);
            pl += 1;
            // heard again through a single put, a bulk put or a bulk delete (as a repair would)
            match rng.below(4) {
                0 => {
                    let t2 = mk(b0 + gap + c, 1, origin);
                    used.push(t2);
                    toks.push(format!("D:{}:k:{:x}.{:x},{:x}.{:x}", src, 20 + c, t, 30 + c, t2));
                },
                1 => {
                    let t2 = mk(b0 + gap + c, 1, origin);
                    used.push(t2);
                    toks.push(format!("S:{}:k:{:x}.{:x}.{:x},{:x}.{:x}.{:x}", src, 20 + c, t, pl, 30 + c, t2, pl + 0x100));
                },
                _ => toks.push(format!("s:{}:{:x}:{:x}:{:x}:k", src, 9 + c, t, pl)),
            }
        }
    }
    if rng.chance(1, 3) { toks.push("P:k".into()); }
    // phase 3: late operations
    for _ in 0..(1 + rng.below(4)) {
        let late = mk(b0 + *rng.pick(&[3u64, 15, 25, 60, 100, gap - W_TICKS + 1, gap - W_TICKS - 1]), rng.below(2), 1 + rng.below(norig));
        used.push(late);
        pl += 1;
        let src = rng.below(2);
        match rng.below(5) {
            0 | 1 => toks.push(format!("s:{}:{:x}:{:x}:{:x}:{}", src, rng.pick(&keys), late, pl, o(rng))),
            2 => toks.push(format!("d:{}:{:x}:{:x}:{}", src, rng.pick(&keys), late, o(rng))),
            3 => {
                let late2 = mk(b0 + 40 + rng.below(30), 1, 1 + rng.below(norig));
                used.push(late2);
                let oc = *rng.pick(&["k", "k", "f", "m10", "m01", "m11"]);
                toks.push(format!("S:{}:{}:{:x}.{:x}.{:x},{:x}.{:x}.{:x}", src, oc, rng.pick(&keys), late, pl, rng.pick(&keys), late2, pl + 0x100));
            },
            _ => {
                let late2 = mk(b0 + 40 + rng.below(30), 1, 1 + rng.below(norig));
                used.push(late2);
                let oc = *rng.pick(&["k", "k", "f", "m10", "m01"]);
                toks.push(format!("D:{}:{}:{:x}.{:x},{:x}.{:x}", src, oc, rng.pick(&keys), late, rng.pick(&keys), late2));
            },
        }
        if rng.chance(1, 4) { toks.push("R".into()); }
        if rng.chance(1, 5) { toks.push(if rng.chance(1, 2) { "P:k".into() } else { "P:m10".into() }); }
    }
    used.sort();
    used.dedup();
    used.truncate(12);
    *probes = used;
    toks
}

fn main() {
    quiet_panics();
    let args = Args::parse();
    let mut rng = Rng::new(args.seed);
    let mut w = CaseWriter::new(&args.dir, "actor");
    // Cases are generated first and executed in chunks, each chunk on a runtime of its own: the
    // tasks a case leaves behind (purge tasks, actors of stopped nodes) die with their runtime
    // instead of piling up over a million cases.
    let mut cases: Vec<(Vec<u64>, Vec<String>)> = Vec::new();
    {
        if let Some(path) = &args.replay {
            for line in std::fs::read_to_string(path).unwrap().lines() {
                let toks: Vec<&str> = line.split_whitespace().collect();
                if toks.len() < 2 || toks[0] != "act" {
                    continue;
                }
                let probes: Vec<u64> = toks[1]
                    .trim_start_matches("probes=")
                    .split(',')
                    .filter(|s| !s.is_empty())
                    .map(hx)
                    .collect();
                let t: Vec<String> = toks[2..].iter().map(|s| s.to_string()).collect();
                cases.push((probes.to_vec(), (&t).to_vec()));
            }
        } else {
        let base = 80_000_000u64;
        let keys = [1u64, 2];
        // stamps: two origins, same-instant tie, and one more than a period later
        let stamps = [mk(base, 0, 1), mk(base + 2, 0, 1), mk(base, 0, 2), mk(base + W_TICKS + 9, 0, 1)];
        let singles = single_tokens(&keys, &stamps, &["k", "f"]);
        let bulks = bulk_tokens(&keys, &stamps, &["k", "f", "m10", "m01"]);
        let mut alphabet: Vec<String> = Vec::new();
        alphabet.extend(singles.iter().cloned());
        alphabet.extend(bulks.iter().cloned());
        alphabet.push("P:k".into());
        alphabet.push("P:f".into());
        let probes: Vec<u64> = stamps.to_vec();
        let mut n_ex = 0u64;
        for a in &alphabet {
            cases.push((probes.to_vec(), (&[a.clone(), "R".into()]).to_vec()));
            n_ex += 1;
        }
        // length 2 and 3: the second/third request from a reduced alphabet (incl. purge, restart)
        let second: Vec<String> = alphabet
            .iter()
            .enumerate()
            .filter(|(i, _)| i % (if args.thorough() { 3 } else { 23 }) == 0)
            .map(|(_, s)| s.clone())
            .chain(["P:k".to_string(), "P:m10".to_string(), "R".to_string()])
            .collect();
        for a in &alphabet {
            for b in &second {
                cases.push((probes.to_vec(), (&[a.clone(), b.clone()]).to_vec()));
                n_ex += 1;
            }
        }
        let third: Vec<String> = second.iter().enumerate().filter(|(i, _)| i % 9 == 0).map(|(_, s)| s.clone()).collect();
        for (i, a) in alphabet.iter().enumerate() {
            if i % (if args.thorough() { 5 } else { 41 }) != 0 {
                continue;
            }
            for b in &second {
                for c in &third {
                    cases.push((probes.to_vec(), (&[a.clone(), b.clone(), c.clone(), "P:k".into(), "R".into()]).to_vec()));
                    n_ex += 1;
                }
            }
        }
        // crash in the middle of every request of the alphabet, after one prior request
        for (i, a) in alphabet.iter().enumerate() {
            if !a.contains(":k") || i % (if args.thorough() { 1 } else { 7 }) != 0 {
                continue;
            }
            cases.push((probes.to_vec(), (&[second[i % second.len()].clone(), format!("C{}", a)]).to_vec()));
            n_ex += 1;
        }
        w.stats.add("exhaustive_histories", n_ex);
        // bulks that themselves span the forgiveness period: one item more than a period newer than
        // another item of the same origin, after the other source has heard that origin equally
        // late (so the cut-off really moves while the bulk is folded into the set) - every kind,
        // source, id order, stamp order inside the request, with and without a restart
        let mut n_span = 0u64;
        for b0 in [7u64, 80_000_000] {
            for gap in [W_TICKS + 100, 2 * W_TICKS, W_TICKS - 3] {
                for kind in ["S", "D"] {
                    for src in 0..2u64 {
                        for (ida, idb) in [(1u64, 2u64), (2, 1)] {
                            for late_first in [true, false] {
                                for origin_b in [1u64, 2] {
                                    let early = mk(b0 + 5, 0, origin_b);
                                    let late = mk(b0 + gap + 7, 0, 1);
                                    let heard = mk(b0 + gap + 6, 0, 1);
                                    let heard_b = mk(b0 + gap + 6, 1, origin_b);
                                    let item = |id: u64, t: u64| if kind == "S" { format!("{:x}.{:x}.{:x}", id, t, 0x700 + id) } else { format!("{:x}.{:x}", id, t) };
                                    let items = if late_first { format!("{},{}", item(ida, late), item(idb, early)) } else { format!("{},{}", item(idb, early), item(ida, late)) };
                                    let mut toks = vec![
                                        format!("s:{}:9:{:x}:61:k", 1 - src, heard),
                                        format!("s:{}:a:{:x}:62:k", 1 - src, heard_b),
                                        format!("{}:{}:k:{}", kind, src, items),
                                    ];
                                    let pr = vec![early, late, heard, mk(b0 + 6, 0, 1), mk(b0 + 6, 0, 2)];
                                    cases.push((pr.to_vec(), (&toks).to_vec()));
                                    toks.push("R".into());
                                    toks.push(format!("d:{}:{:x}:{:x}:k", src, idb, mk(b0 + 6, 0, origin_b)));
                                    cases.push((pr.to_vec(), (&toks).to_vec()));
                                    n_span += 2;
                                }
                            }
                        }
                    }
                }
            }
        }
        w.stats.add("spanning_bulk_histories", n_span);
        let n_cut = if args.thorough() { 40_000 } else { 4_000 };
        for _ in 0..n_cut {
            let mut pr = Vec::new();
            let toks = cutoff_history(&mut rng, &mut pr);
            cases.push((pr.to_vec(), (&toks).to_vec()));
        }
        let n_random = if args.thorough() { 40_000 } else { 4_000 };
        for _ in 0..n_random {
            let mut pr = Vec::new();
            let b = *rng.pick(&[2u64, 300, base]);
            let toks = random_history(&mut rng, b, &mut pr, args.extra.get("focus").map(|f| f == "c07").unwrap_or(false));
            cases.push((pr.to_vec(), (&toks).to_vec()));
        }
        }
    }
    for chunk in cases.chunks(1500) {
        let rt = tokio::runtime::Builder::new_current_thread().enable_all().start_paused(true).build().unwrap();
        rt.block_on(async {
            for (pr, toks) in chunk {
                run_case(&mut w, pr, toks).await;
            }
        });
        drop(rt);
    }
    w.finish(&[]);
}
