//! hx-transfer: implementation executor for C19 (a peer receives the sender's keyspace
//! state unchanged).
//!
//!   tr <tok>...        build a state on node A through the real keyspace actor (tokens as in
//!                      hx-actor: s: d: S: D: P:; `F` = node B fetches the state at this point of
//!                      the history too, a final fetch is always made), node B fetches it with the real
//!                      `ReplicationClient::get_state` from the real `ReplicationService` over the
//!                      in-process transport; the RECEIVED set is printed (and compared with the
//!                      model of the state) and compared by the oracle with the sender's set.
//!   bad <kind> <n>     a peer answers GetState with a nested state that is not a valid archive
//!                      (kind = empty | random | truncated | flipped); the client must report an
//!                      error.  Run in a child process (`child=1`) because the unchecked cast may
//!                      crash the process.

use std::net::SocketAddr;
use std::sync::Arc;

use datacake_crdt::HLCTimestamp;
use datacake_eventual_consistency::verif::*;
use datacake_node::Clock;
use datacake_rpc::{Channel, Handler, Request, RpcService, Server, ServiceRegistry, Status};
use hx_ec::*;
use hxcommon::{quiet_panics, Args, CaseWriter, Rng};

const W_TICKS: u64 = 3600 * 250;

fn mk(tick: u64, cnt: u64, node: u64) -> u64 {
    ((tick / 250) << 32) | ((tick % 250) << 24) | (cnt << 8) | node
}
fn hx(s: &str) -> u64 {
    u64::from_str_radix(s, 16).unwrap()
}

async fn apply_token(group: &KeyspaceGroup<Faulty>, tok: &str) {
    let p: Vec<&str> = tok.split(':').collect();
    let ks = group.get_or_create_keyspace(KS).await;
    match p.as_slice() {
        ["s", src, k, t, pl, _] => {
            let _ = ks.send(msg_set::<Faulty>(src.parse().unwrap(), mk_doc(hx(k), hx(t), hx(pl)))).await;
        },
        ["d", src, k, t, _] => {
            let _ = ks.send(msg_del::<Faulty>(src.parse().unwrap(), mk_meta(hx(k), hx(t)))).await;
        },
        ["S", src, _, items] => {
            let ds = items.split(',').filter(|s| !s.is_empty()).map(|it| {
                let f: Vec<&str> = it.split('.').collect();
                mk_doc(hx(f[0]), hx(f[1]), hx(f[2]))
            }).collect();
            let _ = ks.send(msg_multi_set::<Faulty>(src.parse().unwrap(), ds)).await;
        },
        ["D", src, _, items] => {
            let ms = items.split(',').filter(|s| !s.is_empty()).map(|it| {
                let f: Vec<&str> = it.split('.').collect();
                mk_meta(hx(f[0]), hx(f[1]))
            }).collect();
            let _ = ks.send(msg_multi_del::<Faulty>(src.parse().unwrap(), ms)).await;
        },
        ["P", _] => {
            let _ = ks.send(msg_purge::<Faulty>()).await;
        },
        _ => {},
    }
}

fn addr(i: u16) -> SocketAddr {
    SocketAddr::from(([127, 0, 0, 1], 7100 + i))
}

/// Compares a received set with the sender's own set: everything the property lists.
fn compare_sets(got: &Set2, sent: &Set2, probes: &[u64]) -> Option<String> {
    let mut bad: Option<String> = None;
    if set_contents(got) != set_contents(sent) {
        bad = Some(format!("contents differ: received {:x?}, sender holds {:x?}", set_contents(got), set_contents(sent)));
    }
    if got.diff(sent) != (vec![], vec![]) || sent.diff(got) != (vec![], vec![]) {
        bad.get_or_insert("diff between sender's and received state is not empty".into());
    }
    // accept/refuse decisions and results of further operations
    let (e, d) = set_contents(sent);
    let mut stamps: Vec<u64> = probes.to_vec();
    stamps.extend(e.iter().map(|x| x.1).take(20));
    stamps.extend(d.iter().map(|x| x.1).take(20));
    let keys: Vec<u64> = e.iter().chain(d.iter()).map(|x| x.0).take(20).chain([PROBE_KEY, 0x4242]).collect();
    for t in &stamps {
        for dt in [0u64, 1 << 8, 1 << 32] {
            let ts = HLCTimestamp::from_u64(t.wrapping_add(dt));
            for k in &keys {
                if got.will_apply(*k, ts) != sent.will_apply(*k, ts) {
                    bad.get_or_insert(format!("will_apply({:x},{:x}) differs", k, ts.as_u64()));
                }
            }
            for src in 0..2 {
                let (mut a, mut b) = (got.clone(), sent.clone());
                let k = keys[(t % keys.len() as u64) as usize];
                if a.insert_with_source(src, k, ts) != b.insert_with_source(src, k, ts) || set_contents(&a) != set_contents(&b) {
                    bad.get_or_insert(format!("insert({},{:x},{:x}) differs", src, k, ts.as_u64()));
                }
                let (mut a, mut b) = (got.clone(), sent.clone());
                if a.delete_with_source(src, k, ts) != b.delete_with_source(src, k, ts) || set_contents(&a) != set_contents(&b) {
                    bad.get_or_insert(format!("delete({},{:x},{:x}) differs", src, k, ts.as_u64()));
                }
            }
        }
    }
    let (mut a, mut b) = (got.clone(), sent.clone());
    if a.purge_old_deletes().len() != b.purge_old_deletes().len() || set_contents(&a) != set_contents(&b) {
        bad.get_or_insert("purge differs".into());
    }
    bad
}

async fn run_tr(w: &mut CaseWriter, probes: &[u64], toks: &[String]) {
    let pv: Vec<String> = probes.iter().map(|t| format!("{:x}", t)).collect();
    let case = format!("tr probes={} {}", pv.join(","), toks.join(" "));
    let store = Arc::new(Faulty::default());
    let group = KeyspaceGroup::new(store.clone(), Clock::new(1)).await;
    datacake_rpc::verif::unregister_local_server(addr(0));
    let server = Server::verif_local(addr(0));
    server.add_service(ReplicationService::new(group.clone()));
    let mut client = ReplicationClient::<Faulty>::new(Clock::new(2), Channel::connect(addr(0)));
    let mut outs: Vec<String> = Vec::new();
    let mut fails: Vec<(String, String)> = Vec::new();
    // the state is fetched at every `F` of the history and once more at its end: a peer asks
    // repeatedly, and must each time get the state as it is at that moment
    let mut all: Vec<&str> = toks.iter().map(|s| s.as_str()).collect();
    all.push("F");
    for (i, t) in all.iter().enumerate() {
        if *t != "F" {
            if t.starts_with("P:") {
                let count = |s: Option<Set2>| s.map(|s| set_contents(&s).1.len()).unwrap_or(0);
                let before = count(try_actor_set(&group, KS).await);
                apply_token(&group, t).await;
                let after = count(try_actor_set(&group, KS).await);
                w.stats.hit(if after < before { "purge_removed_tombstones" } else { "purge_removed_nothing" });
            } else {
                apply_token(&group, t).await;
            }
            continue;
        }
        let sent = try_actor_set(&group, KS).await;
        if sent.is_none() {
            fails.push(("peer-cannot-serialise-its-state".into(), format!("fetch after token {}", i)));
        }
        // the transport may deliver the reply in one piece or in many (as HTTP/2 does for anything
        // beyond a frame): the choice rotates with the history, so a replay takes the same path
        let piece = [0usize, 1000, 0, 16 << 10, 37, 0][(all.len() + i) % 6];
        datacake_rpc::verif::set_body_chunk_size(piece);
        w.stats.hit(if piece == 0 { "reply_in_one_piece" } else { "reply_in_pieces" });
        let fetched = client.get_state(KS).await;
        datacake_rpc::verif::set_body_chunk_size(0);
        match fetched {
            Ok((_, got)) => {
                outs.push(format!("ok {}", show_set(&got, probes)));
                w.stats.hit("transfer_ok");
                if let Some(sent) = &sent {
                    if let Some(b) = compare_sets(&got, sent, probes) {
                        fails.push(("received-state-differs-from-sent".into(), format!("fetch after token {}: {}", i, b)));
                    }
                }
                // ... and against what the peer's STORAGE holds (set = storage after every request,
                // C02): this does not go through the actor's serialisation a second time
                use datacake_eventual_consistency::Storage as _;
                if let Ok(it) = store.inner.iter_metadata(KS).await {
                    let mut live: Vec<(u64, u64)> = Vec::new();
                    let mut dead: Vec<(u64, u64)> = Vec::new();
                    for (k, t, d) in it {
                        if d { dead.push((k, t.as_u64())) } else { live.push((k, t.as_u64())) }
                    }
                    live.sort();
                    dead.sort();
                    let (ge, gd) = set_contents(&got);
                    if ge != live || gd != dead {
                        fails.push((
                            "received-state-differs-from-the-peers-storage".into(),
                            format!("fetch after token {}: received {} live / {} tombstones, storage holds {} / {}",
                                    i, ge.len(), gd.len(), live.len(), dead.len()),
                        ));
                    }
                }
            },
            Err(e) => {
                outs.push(format!("err {:?}", e.code));
                fails.push(("valid-state-not-delivered".into(), format!("fetch after token {}: {:?}", i, e)));
            },
        }
    }
    w.case(&case, &outs.join(" | "));
    let mut seen = std::collections::BTreeSet::new();
    for (class, detail) in fails {
        if seen.insert(class.clone()) {
            w.fail(&class, &case, &detail);
        }
    }
    server.shutdown();
}

/// A peer whose GetState reply carries nested bytes that are not a valid archive.
struct BadPeer {
    set: Vec<u8>,
}
impl RpcService for BadPeer {
    fn service_name() -> &'static str {
        <ReplicationService<Faulty> as RpcService>::service_name()
    }
    fn register_handlers(registry: &mut ServiceRegistry<Self>) {
        registry.add_handler::<GetState>();
    }
}
#[datacake_rpc::async_trait]
impl Handler<GetState> for BadPeer {
    type Reply = KeyspaceOrSwotSet;
    async fn on_message(&self, _msg: Request<GetState>) -> Result<Self::Reply, Status> {
        Ok(KeyspaceOrSwotSet {
            timestamp: HLCTimestamp::from_u64(mk(100, 0, 9)),
            last_updated: HLCTimestamp::from_u64(mk(100, 0, 9)),
            set: self.set.clone(),
        })
    }
}

async fn bad_bytes(kind: &str, n: u64) -> Vec<u8> {
    // a real state to damage
    let store = Arc::new(Faulty::default());
    let group = KeyspaceGroup::new(store, Clock::new(1)).await;
    for i in 0..(3 + n % 5) {
        apply_token(&group, &format!("s:0:{:x}:{:x}:1:k", i + 1, mk(1000 + i, 0, 1))).await;
        apply_token(&group, &format!("d:1:{:x}:{:x}:k", i + 50, mk(2000 + i, 0, 2))).await;
    }
    let ks = group.get_or_create_keyspace(KS).await;
    let good = ks.send(Serialize).await.unwrap();
    let mut rng = Rng::new(n);
    match kind {
        "empty" => Vec::new(),
        "random" => (0..(8 + n % 200)).map(|_| rng.next() as u8).collect(),
        "truncated" => good[..(good.len() as u64 * (1 + n % 9) / 10) as usize].to_vec(),
        _ => {
            let mut b = good.clone();
            // damage the root (relative pointers / lengths live at the end of the archive)
            let l = b.len();
            let i = l - 1 - (n as usize % 24.min(l));
            b[i] ^= 0x80 | (1 << (n % 7));
            b
        },
    }
}

async fn run_bad(kind: &str, n: u64) -> String {
    let bytes = bad_bytes(kind, n).await;
    datacake_rpc::verif::unregister_local_server(addr(1));
    let server = Server::verif_local(addr(1));
    server.add_service(BadPeer { set: bytes });
    let mut client = ReplicationClient::<Faulty>::new(Clock::new(2), Channel::connect(addr(1)));
    let r = client.get_state(KS).await;
    server.shutdown();
    match r {
        Err(_) => "err".into(),
        Ok((_, s)) => {
            // using it: a corrupted state that "decodes" is used as if it were the peer's
            let (e, d) = set_contents(&s);
            format!("ok-used entries={} tombstones={}", e.len(), d.len())
        },
    }
}

fn main() {
    quiet_panics();
    let args = Args::parse();
    let rt = tokio::runtime::Builder::new_current_thread().enable_all().start_paused(true).build().unwrap();
    if args.extra.contains_key("child") {
        // child mode: one `bad` case; prints the outcome
        let kind = args.extra.get("kind").cloned().unwrap_or_default();
        let n = args.get_u64("n", 0);
        let out = rt.block_on(run_bad(&kind, n));
        println!("CHILD {}", out);
        return;
    }
    let mut rng = Rng::new(args.seed);
    let mut w = CaseWriter::new(&args.dir, "transfer");
    let exe = std::env::current_exe().unwrap();
    let run_bad_child = |w: &mut CaseWriter, kind: &str, n: u64| {
        let case = format!("bad {} {:x}", kind, n);
        let out = std::process::Command::new(&exe).arg("child=1").arg(format!("kind={kind}")).arg(format!("n={n}")).output();
        let res = match out {
            Ok(o) => {
                let s = String::from_utf8_lossy(&o.stdout).to_string();
                match s.lines().find(|l| l.starts_with("CHILD ")) {
                    Some(l) => l[6..].to_string(),
                    None => format!("crashed status={:?}", o.status.code()),
                }
            },
            Err(_) => "spawn-failed".into(),
        };
        // the model's checked client reports an error
        w.case(&case, if res == "err" { "err" } else { "not-err" });
        w.stats.hit(&format!("bad_{}", res.split_whitespace().next().unwrap_or("?")));
        if res != "err" {
            w.fail("undecodable-state-not-reported-as-error", &case, &res);
        }
    };
    rt.block_on(async {
        if let Some(path) = &args.replay {
            for line in std::fs::read_to_string(path).unwrap().lines() {
                let toks: Vec<&str> = line.split_whitespace().collect();
                match toks.as_slice() {
                    ["tr", pr, rest @ ..] => {
                        let probes: Vec<u64> = pr.trim_start_matches("probes=").split(',').filter(|s| !s.is_empty()).map(hx).collect();
                        run_tr(&mut w, &probes, &rest.iter().map(|s| s.to_string()).collect::<Vec<_>>()).await;
                    },
                    ["bad", kind, n] => run_bad_child(&mut w, kind, hx(n)),
                    _ => {},
                }
            }
            return;
        }
        let base = 95_000_000u64;
        // sizes 0..40 (every offset of the nested slice mod 16), then larger (rkyv serialises hash
        // maps through scratch space proportional to their length: thousands of tombstones); shapes: live only,
        // tombstones only, mixed; 1..200 origins; one or both sources; with purged prefixes
        let mut sizes: Vec<usize> = (0..=40).collect();
        sizes.extend([64, 100, 257, 1000, 1500, 2500]);
        if args.thorough() {
            sizes.extend([4096, 10_000]);
        }
        for &n in &sizes {
            for shape in 0..4 {
                // shape 3 (a state with purged prefixes): few origins, the first half of the history
                // at old ticks with tombstones, the second half two forgiveness periods later with
                // every origin heard through BOTH sources, so that the cut-offs move past the old
                // tombstones and the purge really removes them
                let norig = if shape == 3 { *rng.pick(&[1u64, 2]) } else { *rng.pick(&[1u64, 2, 7, 200]) };
                let mut toks = Vec::new();
                let mut probes = vec![mk(base, 0, 1), mk(base + 2 * W_TICKS, 0, 1)];
                for i in 0..n as u64 {
                    let origin = 1 + (i % norig);
                    let late = shape == 3 && i >= n as u64 / 2;
                    let t = mk(base + i / 3 + if late { 2 * W_TICKS } else { 0 }, i % 3, origin % 256);
                    let src = match shape {
                        2 => 0,
                        3 if late => (i / norig) % 2,
                        _ => i % 2,
                    };
                    let dead = match shape { 0 => false, 1 => true, 3 => !late && i % 2 == 0, _ => i % 3 == 0 };
                    if dead {
                        toks.push(format!("d:{}:{:x}:{:x}:k", src, i * 7 + 1, t));
                    } else {
                        toks.push(format!("s:{}:{:x}:{:x}:{:x}:k", src, i * 7 + 1, t, i));
                    }
                    if i < 6 { probes.push(t); }
                }
                if n >= 2 {
                    // an earlier fetch of the same peer in the middle of the history
                    toks.insert(n / 2, "F".into());
                }
                if shape == 3 {
                    // ... and right before the purge: the state after it must be the purged one
                    toks.push("F".into());
                    toks.push("P:k".into());
                }
                run_tr(&mut w, &probes, &toks).await;
            }
        }
        let nbad = if args.thorough() { 40 } else { 6 };
        for kind in ["empty", "random", "truncated", "flipped"] {
            for n in 0..nbad {
                run_bad_child(&mut w, kind, n as u64 * 7 + 1);
            }
        }
    });
    w.finish(&[]);
}
