// shared helpers of the hx-ec executors
