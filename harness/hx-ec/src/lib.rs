//! Shared pieces of the eventual-consistency executors: a fault-injecting `Storage`
//! wrapper around `MemStore`, observers of a keyspace actor (set + store), and helpers to
//! build the crate's messages.

use std::marker::PhantomData;
use std::sync::Arc;

use datacake_crdt::{HLCTimestamp, Key, OrSWotSet};
use datacake_eventual_consistency::test_utils::{MemStore, MemStoreError};
use datacake_eventual_consistency::verif::*;
use datacake_eventual_consistency::{BulkMutationError, Document, DocumentMetadata, Storage};
use parking_lot::Mutex;
pub const KS: &str = "ks";
pub const PROBE_KEY: u64 = 0xFFFF_FFFF_FFFF_FFFE;

/// What the next storage mutation call does.
#[derive(Clone, Debug, PartialEq)]
pub enum Plan {
    Ok,
    /// fail without writing anything
    Fail,
    /// bulk call: write exactly the items whose position is marked true, then fail
    /// reporting their ids as successful
    Partial(Vec<bool>),
    /// perform the write, then never return (the node is killed in the middle of the request)
    Park,
    /// (single `put` only) perform the write, then wait until `release()` is called: the actor
    /// stays inside this request while other messages queue up behind it
    Hold,
}

pub struct Faulty {
    pub inner: MemStore,
    plan: Mutex<Plan>,
    pub calls: Mutex<u64>,
    gate: tokio::sync::Semaphore,
    /// while set, every storage mutation fails without writing (the disk is full)
    fail_all: std::sync::atomic::AtomicBool,
    /// while set, document reads (`get`, `multi_get`) fail
    fail_reads: std::sync::atomic::AtomicBool,
}

impl Default for Faulty {
    fn default() -> Self {
        Self {
            inner: MemStore::default(),
            plan: Mutex::new(Plan::Ok),
            calls: Mutex::new(0),
            gate: tokio::sync::Semaphore::new(0),
            fail_all: std::sync::atomic::AtomicBool::new(false),
            fail_reads: std::sync::atomic::AtomicBool::new(false),
        }
    }
}

impl Faulty {
    pub fn set_plan(&self, p: Plan) {
        *self.plan.lock() = p;
    }
    /// Lets one held `put` return.
    pub fn release(&self) {
        self.gate.add_permits(1);
    }
    /// While `on`, every storage mutation fails without writing anything.
    pub fn set_fail_all(&self, on: bool) {
        self.fail_all.store(on, std::sync::atomic::Ordering::SeqCst);
    }
    /// While `on`, `get` and `multi_get` fail.
    pub fn set_fail_reads(&self, on: bool) {
        self.fail_reads.store(on, std::sync::atomic::Ordering::SeqCst);
    }
    fn take_plan(&self) -> Plan {
        *self.calls.lock() += 1;
        if self.fail_all.load(std::sync::atomic::Ordering::SeqCst) {
            return Plan::Fail;
        }
        std::mem::replace(&mut *self.plan.lock(), Plan::Ok)
    }
}

fn injected() -> MemStoreError {
    MemStoreError(anyhow::anyhow!("injected storage failure"))
}

#[async_trait::async_trait]
impl Storage for Faulty {
    type Error = MemStoreError;
    type DocsIter = <MemStore as Storage>::DocsIter;
    type MetadataIter = <MemStore as Storage>::MetadataIter;

    async fn get_keyspace_list(&self) -> Result<Vec<String>, Self::Error> {
        self.inner.get_keyspace_list().await
    }

    async fn iter_metadata(&self, keyspace: &str) -> Result<Self::MetadataIter, Self::Error> {
        self.inner.iter_metadata(keyspace).await
    }

    async fn remove_tombstones(
        &self,
        keyspace: &str,
        keys: impl Iterator<Item = Key> + Send,
    ) -> Result<(), BulkMutationError<Self::Error>> {
        // the set hands the purged keys over in HashMap order: a partial failure is
        // defined on the keys in ascending order so that it does not depend on that order
        let mut keys: Vec<Key> = keys.collect();
        keys.sort();
        match self.take_plan() {
            Plan::Ok | Plan::Hold => self.inner.remove_tombstones(keyspace, keys.into_iter()).await,
            Plan::Fail => Err(BulkMutationError::empty_with_error(injected())),
            Plan::Partial(mask) => {
                let done: Vec<Key> = keys
                    .iter()
                    .enumerate()
                    .filter(|(i, _)| mask.get(*i).copied().unwrap_or(false))
                    .map(|(_, k)| *k)
                    .collect();
                self.inner.remove_tombstones(keyspace, done.clone().into_iter()).await?;
                Err(BulkMutationError::new(injected(), done))
            },
            Plan::Park => {
                self.inner.remove_tombstones(keyspace, keys.into_iter()).await?;
                std::future::pending::<()>().await;
                unreachable!()
            },
        }
    }

    async fn put(&self, keyspace: &str, document: Document) -> Result<(), Self::Error> {
        match self.take_plan() {
            Plan::Ok => self.inner.put(keyspace, document).await,
            Plan::Park => {
                self.inner.put(keyspace, document).await?;
                std::future::pending::<()>().await;
                unreachable!()
            },
            Plan::Hold => {
                self.inner.put(keyspace, document).await?;
                if let Ok(p) = self.gate.acquire().await {
                    p.forget();
                }
                Ok(())
            },
            _ => Err(injected()),
        }
    }

    async fn multi_put(
        &self,
        keyspace: &str,
        documents: impl Iterator<Item = Document> + Send,
    ) -> Result<(), BulkMutationError<Self::Error>> {
        let docs: Vec<Document> = documents.collect();
        match self.take_plan() {
            Plan::Ok | Plan::Hold => self.inner.multi_put(keyspace, docs.into_iter()).await,
            Plan::Fail => Err(BulkMutationError::empty_with_error(injected())),
            Plan::Partial(mask) => {
                let mut done = Vec::new();
                for (i, d) in docs.into_iter().enumerate() {
                    if mask.get(i).copied().unwrap_or(false) {
                        done.push(d.id());
                        self.inner.put(keyspace, d).await.map_err(BulkMutationError::empty_with_error)?;
                    }
                }
                Err(BulkMutationError::new(injected(), done))
            },
            Plan::Park => {
                self.inner.multi_put(keyspace, docs.into_iter()).await?;
                std::future::pending::<()>().await;
                unreachable!()
            },
        }
    }

    async fn mark_as_tombstone(
        &self,
        keyspace: &str,
        doc_id: Key,
        timestamp: HLCTimestamp,
    ) -> Result<(), Self::Error> {
        match self.take_plan() {
            Plan::Ok | Plan::Hold => self.inner.mark_as_tombstone(keyspace, doc_id, timestamp).await,
            Plan::Park => {
                self.inner.mark_as_tombstone(keyspace, doc_id, timestamp).await?;
                std::future::pending::<()>().await;
                unreachable!()
            },
            _ => Err(injected()),
        }
    }

    async fn mark_many_as_tombstone(
        &self,
        keyspace: &str,
        documents: impl Iterator<Item = DocumentMetadata> + Send,
    ) -> Result<(), BulkMutationError<Self::Error>> {
        let docs: Vec<DocumentMetadata> = documents.collect();
        match self.take_plan() {
            Plan::Ok | Plan::Hold => self.inner.mark_many_as_tombstone(keyspace, docs.into_iter()).await,
            Plan::Fail => Err(BulkMutationError::empty_with_error(injected())),
            Plan::Partial(mask) => {
                let mut done = Vec::new();
                for (i, d) in docs.into_iter().enumerate() {
                    if mask.get(i).copied().unwrap_or(false) {
                        done.push(d.id);
                        self.inner
                            .mark_as_tombstone(keyspace, d.id, d.last_updated)
                            .await
                            .map_err(BulkMutationError::empty_with_error)?;
                    }
                }
                Err(BulkMutationError::new(injected(), done))
            },
            Plan::Park => {
                self.inner.mark_many_as_tombstone(keyspace, docs.into_iter()).await?;
                std::future::pending::<()>().await;
                unreachable!()
            },
        }
    }

    async fn get(&self, keyspace: &str, doc_id: Key) -> Result<Option<Document>, Self::Error> {
        if self.fail_reads.load(std::sync::atomic::Ordering::SeqCst) {
            return Err(injected());
        }
        self.inner.get(keyspace, doc_id).await
    }

    async fn multi_get(
        &self,
        keyspace: &str,
        doc_ids: impl Iterator<Item = Key> + Send,
    ) -> Result<Self::DocsIter, Self::Error> {
        if self.fail_reads.load(std::sync::atomic::Ordering::SeqCst) {
            return Err(injected());
        }
        self.inner.multi_get(keyspace, doc_ids).await
    }
}

pub type Set2 = OrSWotSet<NUM_SOURCES>;
pub type Pairs = Vec<(u64, u64)>;

fn canon(v: Vec<(u64, HLCTimestamp)>) -> Pairs {
    let mut p: Pairs = v.into_iter().map(|(k, t)| (k, t.as_u64())).collect();
    p.sort();
    p
}

pub fn show_pairs(p: &Pairs) -> String {
    let v: Vec<String> = p.iter().map(|(k, t)| format!("{:x}={:x}", k, t)).collect();
    format!("[{}]", v.join(","))
}

/// (live entries, tombstones) of a set, through the public API.
pub fn set_contents(s: &Set2) -> (Pairs, Pairs) {
    let (m, r) = Set2::default().diff(s);
    (canon(m), canon(r))
}

/// The set held by a keyspace actor, as a peer would obtain it (Serialize + decode).
/// As `actor_set`, for callers that must survive an actor which cannot serialise its state.
pub async fn try_actor_set<S: Storage>(group: &KeyspaceGroup<S>, keyspace: &str) -> Option<Set2> {
    let ks = group.get_or_create_keyspace(keyspace).await;
    let bytes = ks.send(Serialize).await.ok()?;
    rkyv::from_bytes::<Set2>(&bytes).ok()
}

pub async fn actor_set<S: Storage>(group: &KeyspaceGroup<S>, keyspace: &str) -> Set2 {
    let ks = group.get_or_create_keyspace(keyspace).await;
    let bytes = ks.send(Serialize).await.expect("serialize");
    rkyv::from_bytes::<Set2>(&bytes).expect("decode set")
}

/// `E[..]D[..]B[..]` exactly as the model driver prints a set.
pub fn show_set(s: &Set2, probes: &[u64]) -> String {
    let (e, d) = set_contents(s);
    let b: String = probes
        .iter()
        .map(|t| if s.will_apply(PROBE_KEY, HLCTimestamp::from_u64(*t)) { '0' } else { '1' })
        .collect();
    format!("E{}D{}B[{}]", show_pairs(&e), show_pairs(&d), b)
}

/// `M[k=t.0|1,..]G[k=t.p,..]`: the store's metadata and live documents (payload = first
/// 8 bytes little-endian, the executors only write such payloads).
pub async fn show_store<S: Storage>(st: &S, keyspace: &str) -> String {
    let mut meta: Vec<(u64, u64, bool)> = match st.iter_metadata(keyspace).await {
        Ok(it) => it.map(|(k, t, d)| (k, t.as_u64(), d)).collect(),
        Err(_) => Vec::new(),
    };
    meta.sort();
    let mut docs = Vec::new();
    for (k, _, dead) in &meta {
        let got = st.get(keyspace, *k).await.ok().flatten();
        match (got, dead) {
            (Some(d), _) => docs.push(format!("{:x}={:x}.{:x}", k, d.last_updated().as_u64(), payload_of(&d))),
            (None, false) => docs.push(format!("{:x}=missing", k)),
            (None, true) => {},
        }
    }
    let m: Vec<String> = meta.iter().map(|(k, t, d)| format!("{:x}={:x}.{}", k, t, *d as u8)).collect();
    format!("M[{}]G[{}]", m.join(","), docs.join(","))
}

pub fn payload_of(d: &Document) -> u64 {
    let mut b = [0u8; 8];
    let n = d.data().len().min(8);
    b[..n].copy_from_slice(&d.data()[..n]);
    u64::from_le_bytes(b)
}

pub fn mk_doc(k: u64, t: u64, p: u64) -> Document {
    Document::new(k, HLCTimestamp::from_u64(t), p.to_le_bytes().to_vec())
}

pub fn mk_meta(k: u64, t: u64) -> DocumentMetadata {
    DocumentMetadata::new(k, HLCTimestamp::from_u64(t))
}

pub fn msg_set<S: Storage>(src: usize, d: Document) -> Set<S> {
    Set { source: src, doc: d, ctx: None, _marker: PhantomData }
}
pub fn msg_multi_set<S: Storage>(src: usize, ds: Vec<Document>) -> MultiSet<S> {
    MultiSet { source: src, docs: smallvec::SmallVec::from_vec(ds), ctx: None, _marker: PhantomData }
}
pub fn msg_del<S: Storage>(src: usize, m: DocumentMetadata) -> Del<S> {
    Del { source: src, doc: m, _marker: PhantomData }
}
pub fn msg_multi_del<S: Storage>(src: usize, ms: Vec<DocumentMetadata>) -> MultiDel<S> {
    MultiDel { source: src, docs: smallvec::SmallVec::from_vec(ms), _marker: PhantomData }
}
pub fn msg_purge<S: Storage>() -> PurgeDeletes<S> {
    PurgeDeletes(PhantomData)
}

pub fn arc<T>(x: T) -> Arc<T> {
    Arc::new(x)
}
