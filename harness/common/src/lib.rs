//! Shared helpers for the correspondence executors: one seeded PRNG, case/result
//! writers, panic capture, a tiny JSON statistics emitter and argument parsing.

use std::collections::BTreeMap;
use std::fs::File;
use std::io::{BufWriter, Write};
use std::panic::{catch_unwind, AssertUnwindSafe};
use std::path::PathBuf;

/// SplitMix64: every random choice of a run derives from one state, so a
/// disagreement replays exactly from the seed.
#[derive(Clone)]
pub struct Rng(pub u64);

impl Rng {
    pub fn new(seed: u64) -> Self {
        Rng(seed ^ 0x9E37_79B9_7F4A_7C15)
    }
    pub fn next(&mut self) -> u64 {
        self.0 = self.0.wrapping_add(0x9E37_79B9_7F4A_7C15);
        let mut z = self.0;
        z = (z ^ (z >> 30)).wrapping_mul(0xBF58_476D_1CE4_E5B9);
        z = (z ^ (z >> 27)).wrapping_mul(0x94D0_49BB_1331_11EB);
        z ^ (z >> 31)
    }
    /// uniform in 0..n (n > 0)
    pub fn below(&mut self, n: u64) -> u64 {
        self.next() % n
    }
    pub fn chance(&mut self, num: u64, den: u64) -> bool {
        self.below(den) < num
    }
    pub fn pick<'a, T>(&mut self, xs: &'a [T]) -> &'a T {
        &xs[self.below(xs.len() as u64) as usize]
    }
    pub fn shuffle<T>(&mut self, xs: &mut [T]) {
        for i in (1..xs.len()).rev() {
            let j = self.below(i as u64 + 1) as usize;
            xs.swap(i, j);
        }
    }
}

pub fn hex_bytes(b: &[u8]) -> String {
    let mut s = String::with_capacity(b.len() * 2);
    for x in b {
        s.push_str(&format!("{:02x}", x));
    }
    s
}

pub fn unhex_bytes(s: &str) -> Vec<u8> {
    (0..s.len() / 2)
        .map(|i| u8::from_str_radix(&s[2 * i..2 * i + 2], 16).unwrap())
        .collect()
}

/// Runs `f`, mapping a panic to `None`.  The default panic hook is silenced once
/// by `quiet_panics()`.
pub fn no_panic<T>(f: impl FnOnce() -> T) -> Option<T> {
    catch_unwind(AssertUnwindSafe(f)).ok()
}

pub fn quiet_panics() {
    if std::env::var("HX_LOUD").is_err() {
        std::panic::set_hook(Box::new(|_| {}));
    }
}

/// Command line: `<bin> --seed N --tier quick|thorough --dir D [--replay FILE] [k=v ...]`
pub struct Args {
    pub seed: u64,
    pub tier: String,
    pub dir: PathBuf,
    pub replay: Option<PathBuf>,
    pub extra: BTreeMap<String, String>,
}

impl Args {
    pub fn parse() -> Self {
        let mut seed = 1u64;
        let mut tier = "quick".to_string();
        let mut dir = PathBuf::from(".");
        let mut replay = None;
        let mut extra = BTreeMap::new();
        let mut it = std::env::args().skip(1);
        while let Some(a) = it.next() {
            match a.as_str() {
                "--seed" => seed = it.next().unwrap().parse().unwrap(),
                "--tier" => tier = it.next().unwrap(),
                "--dir" => dir = PathBuf::from(it.next().unwrap()),
                "--replay" => replay = Some(PathBuf::from(it.next().unwrap())),
                other => {
                    if let Some((k, v)) = other.split_once('=') {
                        extra.insert(k.to_string(), v.to_string());
                    } else {
                        extra.insert(other.to_string(), "1".to_string());
                    }
                },
            }
        }
        Args {
            seed,
            tier,
            dir,
            replay,
            extra,
        }
    }
    pub fn thorough(&self) -> bool {
        self.tier == "thorough"
    }
    pub fn get_u64(&self, k: &str, default: u64) -> u64 {
        self.extra
            .get(k)
            .map(|v| v.parse().unwrap())
            .unwrap_or(default)
    }
}

/// Writes the cases (`<name>.cases`), the implementation's results
/// (`<name>.impl`), and oracle failures (`<name>.fail`), line-aligned.
pub struct CaseWriter {
    cases: BufWriter<File>,
    results: BufWriter<File>,
    fails: BufWriter<File>,
    pub n: u64,
    pub nfail: u64,
    pub stats: Stats,
    /// bytes written to the case and result files so far, and the budget (HX_MAX_BYTES)
    bytes: u64,
    budget: u64,
}

impl CaseWriter {
    pub fn new(dir: &std::path::Path, name: &str) -> Self {
        std::fs::create_dir_all(dir).unwrap();
        let mk = |ext: &str| {
            BufWriter::with_capacity(
                1 << 20,
                File::create(dir.join(format!("{name}.{ext}"))).unwrap(),
            )
        };
        CaseWriter {
            cases: mk("cases"),
            results: mk("impl"),
            fails: mk("fail"),
            n: 0,
            nfail: 0,
            stats: Stats::default(),
            bytes: 0,
            budget: std::env::var("HX_MAX_BYTES").ok().and_then(|v| v.parse().ok()).unwrap_or(1_200_000_000),
        }
    }
    /// Records one case for the comparison with the model.  The case and result files of one
    /// run stay below the disk budget: cases beyond it are still executed and judged by the
    /// property's oracle (the caller's `fail`), but not written for the model comparison.
    pub fn case(&mut self, case: &str, result: &str) {
        debug_assert!(!case.contains('\n') && !result.contains('\n'));
        if self.bytes > self.budget {
            self.stats.hit("cases_beyond_disk_budget_oracle_only");
            return;
        }
        self.bytes += (case.len() + result.len() + 2) as u64;
        writeln!(self.cases, "{case}").unwrap();
        writeln!(self.results, "{result}").unwrap();
        self.n += 1;
    }
    /// An oracle failure: the property's own predicate is false on the
    /// implementation for this input.  `class` names the failing clause.
    pub fn fail(&mut self, class: &str, case: &str, detail: &str) {
        writeln!(self.fails, "{class}\t{case}\t{detail}").unwrap();
        self.nfail += 1;
    }
    pub fn finish(mut self, extra: &[(&str, String)]) {
        self.cases.flush().unwrap();
        self.results.flush().unwrap();
        self.fails.flush().unwrap();
        let mut s = String::from("{");
        s.push_str(&format!("\"cases\":{},\"oracle_failures\":{}", self.n, self.nfail));
        for (k, v) in extra {
            s.push_str(&format!(",\"{k}\":{v}"));
        }
        s.push_str(",\"counters\":{");
        let mut first = true;
        for (k, v) in &self.stats.counters {
            if !first {
                s.push(',');
            }
            first = false;
            s.push_str(&format!("\"{k}\":{v}"));
        }
        s.push_str("}}");
        println!("HXSTATS {s}");
    }
}

/// Named counters: input distribution and branch coverage, written into the
/// evidence by the driver.
#[derive(Default)]
pub struct Stats {
    pub counters: BTreeMap<String, u64>,
}

impl Stats {
    pub fn hit(&mut self, k: &str) {
        *self.counters.entry(k.to_string()).or_insert(0) += 1;
    }
    pub fn add(&mut self, k: &str, n: u64) {
        *self.counters.entry(k.to_string()).or_insert(0) += n;
    }
}
